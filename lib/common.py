"""Shared plumbing of the check driver: paths, builds, the proof audit, running
implementation and model on case files, evidence and replay files."""
import json, os, re, subprocess, sys, time, hashlib, shutil

VERIF = os.path.dirname(os.path.dirname(os.path.abspath(__file__)))
REPO = os.environ.get("VERIF_REPO", "/repo")
COQ = os.path.join(VERIF, "coq")
CACHE = os.path.join(VERIF, ".cache")
WORK = os.path.join(CACHE, "work")
TARGET = os.path.join(CACHE, "target")
MODELRUN = os.path.join(VERIF, "ocaml", "modelrun")
EVID = os.path.join(VERIF, "evidence")
REPLAYS = os.path.join(VERIF, "replays")
ENV = dict(os.environ, CARGO_NET_OFFLINE="true", CARGO_TARGET_DIR=TARGET)

TRUSTED_BASE = [
    "Coq 8.16.1 kernel and its VM (vm_compute used inside proofs for finite facts: CRC table linearity/injectivity, witnesses); no native_compute",
    "axioms: none (every pinned theorem must print 'Closed under the global context'; audited on every run)",
    "extraction: ExtrOcamlBasic only (Extract Inductive bool, option, unit, prod, list, sumbool, sumor, comparison; no Extract Constant), OCaml 4.13.1, ocaml/modelrun.ml (line protocol driver, Obj.magic byte<->int)",
    "correspondence tooling: lib/*.py generators and comparators, harness/ (Rust, path dependency on /repo), libc symbol interposition shim",
    "hand-written model (coq/theories/Model): tied to /repo only by the differential correspondence checks of this run",
    "modelled not verified: std (BTreeMap, BufReader, mpsc FIFO, RwLock), crc32fast, codeq, byteorder, fs2/flock, the file system and the crash model of DESIGN 2.3",
]

FORBIDDEN = re.compile(r"\b(Admitted|admit|Axiom|Axioms|Parameter|Parameters|Conjecture|Hypothesis|Variable|Variables|Hypotheses)\b|Unset\s+Guard|bypass_check|type-in-type|impredicative-set|Unset\s+Universe\s+Checking|Unset\s+Positivity")


def sh(cmd, cwd=None, timeout=None, env=None, capture=True):
    p = subprocess.run(cmd, cwd=cwd, shell=isinstance(cmd, str), timeout=timeout, env=env or ENV,
                       stdout=subprocess.PIPE if capture else None,
                       stderr=subprocess.STDOUT if capture else None, text=True)
    return p.returncode, (p.stdout or "")


def log(*a):
    print(*a, file=sys.stderr, flush=True)


# ----------------------------------------------------------------- builds
def build_coq(timeout=3000):
    """Full .vo build through coq_makefile. Returns (ok, output)."""
    mk = os.path.join(COQ, "Makefile")
    cp = os.path.join(COQ, "_CoqProject")
    if not os.path.exists(mk) or os.path.getmtime(mk) < os.path.getmtime(cp):
        rc, out = sh("coq_makefile -f _CoqProject -o Makefile", cwd=COQ, timeout=120)
        if rc != 0:
            return False, out
    rc, out = sh("make -j16 2>&1", cwd=COQ, timeout=timeout)
    return rc == 0, out


def build_coq_target(vo_rel, timeout=3000):
    """Build one .vo (and what it depends on); used so that a broken proof of another
    property does not take this property's check down with it."""
    mk = os.path.join(COQ, "Makefile")
    cp = os.path.join(COQ, "_CoqProject")
    if not os.path.exists(mk) or os.path.getmtime(mk) < os.path.getmtime(cp):
        rc, out = sh("coq_makefile -f _CoqProject -o Makefile", cwd=COQ, timeout=120)
        if rc != 0:
            return False, out
    rc, out = sh(["make", "-j16", vo_rel], cwd=COQ, timeout=timeout)
    return rc == 0, out


def _newest(paths):
    m = 0
    for p in paths:
        if os.path.isdir(p):
            for r, _, fs in os.walk(p):
                for f in fs:
                    if f.endswith((".v", ".ml", ".rs", ".toml", ".lock")):
                        m = max(m, os.path.getmtime(os.path.join(r, f)))
        elif os.path.exists(p):
            m = max(m, os.path.getmtime(p))
    return m


def build_modelrun():
    src = _newest([os.path.join(COQ, "theories", d) for d in ("Base", "Model", "Spec", "Extract")]
                  + [os.path.join(VERIF, "ocaml", "modelrun.ml")])
    if os.path.exists(MODELRUN) and os.path.getmtime(MODELRUN) >= src:
        return True, ""
    # the model .vo files must exist for extraction
    ok, out = build_coq_target("theories/Model/Run.vo")
    if not ok:
        return False, out
    ok, out = build_coq_target("theories/Model/Sys.vo") if os.path.exists(os.path.join(COQ, "theories/Model/Sys.v")) else (True, "")
    if not ok:
        return False, out
    rc, out = sh("./build.sh", cwd=os.path.join(VERIF, "ocaml"), timeout=600)
    return rc == 0, out


def harness_bin(profile="debug"):
    return os.path.join(TARGET, profile, "rlharness")


def build_harness(profile="debug"):
    """Rebuild the harness (and the crate) from /repo's current working tree."""
    hd = os.path.join(VERIF, "harness")
    lock = os.path.join(hd, "Cargo.lock")
    if not os.path.exists(lock):
        shutil.copy(os.path.join(REPO, "Cargo.lock"), lock)
    cmd = ["cargo", "build", "--offline"] + (["--release"] if profile == "release" else [])
    rc, out = sh(cmd, cwd=hd, timeout=1800)
    return rc == 0, out


# ----------------------------------------------------------------- proof audit
def grep_forbidden():
    bad = []
    for r, _, fs in os.walk(os.path.join(COQ, "theories")):
        for f in fs:
            if not f.endswith(".v"):
                continue
            p = os.path.join(r, f)
            txt = open(p).read()
            txt = strip_comments(txt)
            for i, line in enumerate(txt.splitlines(), 1):
                m = FORBIDDEN.search(line)
                if m:
                    # Variable/Hypothesis are allowed inside sections only: check crudely
                    if m.group(1) in ("Variable", "Variables", "Hypothesis", "Hypotheses"):
                        if in_section(txt, i):
                            continue
                    bad.append("%s:%d: %s" % (os.path.relpath(p, VERIF), i, line.strip()))
    return bad


def strip_comments(txt):
    """remove (nested) Coq comments, keeping line structure"""
    out, depth, i, n = [], 0, 0, len(txt)
    while i < n:
        if txt.startswith("(*", i):
            depth += 1
            i += 2
        elif depth > 0 and txt.startswith("*)", i):
            depth -= 1
            i += 2
        else:
            if depth == 0 or txt[i] == "\n":
                out.append(txt[i])
            i += 1
    return "".join(out)


def in_section(txt, lineno):
    depth = 0
    for i, line in enumerate(txt.splitlines(), 1):
        if i >= lineno:
            break
        if re.match(r"\s*Section\s+\w+", line):
            depth += 1
        elif re.match(r"\s*End\s+\w+", line) and depth > 0:
            depth -= 1
    return depth > 0


def audit_theorems(prop, module, theorems):
    """Compile a throw-away file that prints the assumptions of every pinned theorem.
    Returns (discharged_names, problems)."""
    os.makedirs(os.path.join(CACHE, "audit"), exist_ok=True)
    f = os.path.join(CACHE, "audit", "Audit_%s.v" % prop)
    with open(f, "w") as fh:
        fh.write("From RaftLog Require Import %s.\n" % module)
        for t in theorems:
            fh.write('Goal True. idtac "BEGIN %s". Abort.\nPrint Assumptions %s.\n' % (t, t))
    rc, out = sh(["coqc", "-q", "-Q", os.path.join(COQ, "theories"), "RaftLog", f],
                 cwd=os.path.join(CACHE, "audit"), timeout=900)
    problems, ok = [], []
    if rc != 0:
        return [], ["audit file does not compile: " + out[-800:]]
    parts = re.split(r"BEGIN (\S+)", out)
    seen = {}
    for i in range(1, len(parts), 2):
        seen[parts[i]] = parts[i + 1]
    for t in theorems:
        body = seen.get(t, "")
        if "Closed under the global context" in body:
            ok.append(t)
        else:
            problems.append("%s depends on: %s" % (t, " ".join(body.split())[:300]))
    return ok, problems


def run_coqchk(module):
    """Independent re-check of the compiled property file and everything it depends on
    (thorough tier): coqchk must accept it and report no axioms and no disabled checks."""
    rc, out = sh(["coqchk", "-o", "-silent", "-Q", "theories", "RaftLog", "RaftLog." + module], cwd=COQ, timeout=3000)
    probs = []
    if rc != 0:
        probs.append("coqchk rejected RaftLog.%s: %s" % (module, out[-600:]))
        return probs
    for key in ("Axioms:", "type-in-type:", "unsafe (co)fixpoints:", "positivity is assumed:"):
        m = [l for l in out.splitlines() if key in l]
        if not m or "<none>" not in m[0]:
            probs.append("coqchk context summary: %s" % (m[0].strip() if m else key + " line missing"))
    return probs


def proof_stage(prop, module, vo_rel, theorems, coqchk=False):
    """Returns dict(ok, obligations, discharged, problems)."""
    problems = []
    ok_build, out = build_coq_target(vo_rel)
    if not ok_build:
        tail = "\n".join(out.strip().splitlines()[-15:])
        problems.append("coq build of %s failed:\n%s" % (vo_rel, tail))
        return dict(ok=False, obligations=len(theorems), discharged=0, problems=problems, names=theorems)
    bad = grep_forbidden()
    if bad:
        problems.append("forbidden vernacular: " + "; ".join(bad[:5]))
    good, probs = audit_theorems(prop, module, theorems)
    problems += probs
    if coqchk:
        problems += run_coqchk(module)
    return dict(ok=not problems, obligations=len(theorems), discharged=len(good), problems=problems,
                names=theorems)


# ----------------------------------------------------------------- running cases
def workdir(prop):
    d = os.path.join(WORK, prop)
    shutil.rmtree(d, ignore_errors=True)
    os.makedirs(d, exist_ok=True)
    return d


def run_impl(cases, wd, tag="impl", profile="debug", threads=16, timeout=3000):
    cf = os.path.join(wd, tag + ".cases")
    of = os.path.join(wd, tag + ".out")
    with open(cf, "w") as fh:
        fh.write("\n".join(cases) + "\n")
    env = dict(ENV)
    rc, out = sh([harness_bin(profile), "run", cf, of, str(threads)], timeout=timeout, env=env)
    if rc != 0 or not os.path.exists(of):
        raise RuntimeError("harness failed rc=%s: %s" % (rc, out[-500:]))
    res = open(of).read().split("\n")
    if res and res[-1] == "":
        res.pop()
    if len(res) != len(cases):
        raise RuntimeError("harness output has %d lines for %d cases" % (len(res), len(cases)))
    return res


def run_model(cases, wd, tag="model", shards=16, timeout=3000):
    """Run the extracted model, sharded over processes."""
    n = len(cases)
    if n == 0:
        return []
    shards = max(1, min(shards, n))
    procs = []
    for s in range(shards):
        part = cases[s::shards]
        cf = os.path.join(wd, "%s.%d.cases" % (tag, s))
        of = os.path.join(wd, "%s.%d.out" % (tag, s))
        with open(cf, "w") as fh:
            fh.write("\n".join(part) + "\n")
        p = subprocess.Popen("ulimit -s unlimited 2>/dev/null; exec %s < %s > %s" % (MODELRUN, cf, of),
                             shell=True)
        procs.append((p, of, len(part)))
    outs = []
    for p, of, k in procs:
        p.wait(timeout=timeout)
        r = open(of).read().split("\n")
        if r and r[-1] == "":
            r.pop()
        if len(r) != k:
            raise RuntimeError("modelrun output has %d lines for %d cases (%s)" % (len(r), k, of))
        outs.append(r)
    res = [None] * n
    for s in range(shards):
        for j, line in enumerate(outs[s]):
            res[s + j * shards] = line
    return res


def run_model_vm(cases, wd, tag="vm", timeout=900):
    """Cross-check of extraction: evaluate SEQ/ENC/DEC cases inside Coq with vm_compute.
    Implemented by lib/vmcheck.py (optional)."""
    from vmcheck import run_vm
    return run_vm(cases, wd, tag, timeout)


# ----------------------------------------------------------------- evidence / replays / findings
def load_known():
    p = os.path.join(VERIF, "known_findings.json")
    if os.path.exists(p):
        return json.load(open(p))
    return {"findings": []}


def write_replay(prop, seed, n, obj):
    os.makedirs(REPLAYS, exist_ok=True)
    p = os.path.join(REPLAYS, "%s-%s-%d.json" % (prop, seed, n))
    json.dump(obj, open(p, "w"), indent=1)
    return p


def write_evidence(prop, tier, seed, coverage, wall, violations, assumptions=None, level="proof"):
    os.makedirs(EVID, exist_ok=True)
    ev = {
        "property_id": prop, "tier": tier, "seed": int(seed), "level": level,
        "coverage": coverage, "assumptions": assumptions or [], "wall_s": round(wall, 2),
        "violations": int(violations),
    }
    json.dump(ev, open(os.path.join(EVID, prop + ".json"), "w"), indent=1)


def first_diff(a, b):
    """index of the first differing ' ; '-separated field of two result lines"""
    x, y = a.split(" ; "), b.split(" ; ")
    for i in range(max(len(x), len(y))):
        if i >= len(x) or i >= len(y) or x[i] != y[i]:
            return i, (x[i] if i < len(x) else None), (y[i] if i < len(y) else None)
    return None
