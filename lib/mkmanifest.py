"""Regenerates MANIFEST.json from the table below (run by hand after changing claims)."""
import json, os
HERE = os.path.dirname(os.path.dirname(os.path.abspath(__file__)))

COMMON_NOTE = ("Trusted: Coq 8.16.1 kernel+VM, no axioms (audited by Print Assumptions on every run), extraction (ExtrOcamlBasic only) "
               "and ocaml/modelrun.ml, the Rust harness/generators/comparators. The Rust code is modelled by hand; the tie is the differential "
               "correspondence run against /repo's working tree on every check. Types fixed to LogId=(u64,u64), Vote=(u64,u64), payload/user data=Vec<u8>. ")

CLAIMS = {
 "C01": ("Refinement theorem: every run of a Raft-legal history from an empty directory (any chunk limits, worker progress at any point, no eviction) never panics and leaves the caller observing exactly the reference in-memory log (state, every range read, snapshot iteration); results of write calls agree with the reference log; corollary: chunk limits are invisible. Model tied to the crate by K-seq (lock-step differential histories incl. chunk limits 0/1) and the extracted reference log as direct oracle on the implementation.",
         COMMON_NOTE + "Worker asynchrony inside one call is not exercised here (K-trace does that); journal sizes < 2^64.",
         "Coq refinement proof (simulation invariant over the op list) + differential histories", "DESIGN 5/C01"),
 "C02": ("Theorems: after a Raft-legal history, flushed with the worker idle, the directory reopens under any other configuration, is left byte-for-byte untouched, and the reopened store observes exactly the reference log and satisfies the C01 simulation invariant again (so it continues with the same semantics); the same for any number of flush+restart cycles under different configurations. Differential histories with 1-4 restarts under redrawn configurations, comparing state, reads, snapshot iteration and raw directory bytes across restarts.",
         COMMON_NOTE + "Proved for cache limits large enough that replay evicts nothing (reads under cache pressure are C07); restarts in the model happen at worker-idle points (drop waits for the worker, see C14).",
         "Coq proof (replay-of-the-journal simulation invariant) + differential histories with restarts", "DESIGN 5/C02"),
 "C04": ("Theorems over the small-step caller/worker/file-system model, for every interleaving, batching, chunk rotation and every sequence of injected write/fdatasync/unlink failures incl. worker death: a callback that reported success implies every journal byte below the journal end at its flush call, in every file still present, is inside that file's synced prefix; synced <= written; callbacks at most once and in request order; exactly once without failures when the worker has caught up. The model is tied to the crate by K-trace: gated schedules at system-call granularity with injected EIO, the recorded global trace must be a run of the model; the same predicates are evaluated directly on the recorded traces.",
         COMMON_NOTE + "Partial w.r.t. the OS: a successful fdatasync is assumed to make all previously written bytes of that file durable; real schedules are the gated subset, the model's are all.",
         "Coq invariant proof on a small-step system + trace validation with fault injection", "DESIGN 5/C04"),
 "C05": ("The property is false of the code in one class (known finding F3, machine-checked witness `C05_refuted_gap`: a crash between the creation of a new chunk file and the worker's write of the old chunk's tail leaves a gap and open refuses). Positive theorem outside the class: for EVERY reachable state of the small-step caller/worker/file-system model (any interleaving, batching, injected failures, worker death), EVERY crash image of it (each file cut anywhere between its synced and written length, or zero-filled from a record boundary) in which no older file stops short of the next file's name, and every configuration with tail truncation enabled: open succeeds and the recovered store never panics whatever is done with it. Ties: K-trace with directory snapshots while the worker is held; for every snapshot the process-crash image, the synced-bytes image and random cuts/zero tails are opened by the real crate and by the model, then written to, flushed and reopened; failures inside the known class are reported as KNOWN-FINDING.",
         COMMON_NOTE + "Partial w.r.t. the OS: directory operations (create, unlink, ftruncate) are assumed durable and ordered, fdatasync durable; torn writes are cuts at any byte, zero-filled extents start at record boundaries. Crashes during recovery itself are covered by the checks only through the recovered directory being opened again.",
         "Coq proof outside a machine-checked refuted class + trace validation + crash-image differential recovery", "DESIGN 5/C05"),
 "C06": ("Unconditional theorems: a refused record/write leaves the entire caller-side state identical and produces no effect (hence nothing later can differ); a refused multi-entry append equals appending the accepted prefix; the store refuses exactly what the reference log refuses. Differential histories with 20% refused operations, stat and resident cache set compared before/after every refused call, then flush + restart.",
         COMMON_NOTE, "Coq proof (state equality) + differential histories with refused writes", "DESIGN 5/C06"),
 "C07": ("The property is false of the code in one class (known finding F2, carried as a machine-checked witness `C07_refuted_live`: a Raft-legal history under a zero-item cache after which a live entry is unreadable). Positive theorem outside the class: for ANY cache limits (0 included), any chunk limits, drains and worker progress at any call boundary, if every appended log id is above every eviction boundary in force or still to be installed, the run never panics and every range read and the snapshot iteration return exactly the reference log's entries; a second witness shows the class cannot be narrowed to the boundary in force. Ties: lock-step histories under tiny caches with reads, snapshot iteration, drains and restarts; gated traces with reads while requests are buffered / queued / written / synced / evicted; every read item compared with the reference log; failures inside the known class are reported as KNOWN-FINDING.",
         COMMON_NOTE + "The theorem is proved on the sequential system (worker progress at call boundaries) and on the small-step system (every interleaving, failures, worker death; between API calls). Partial: concurrent reader threads are not modelled (a read takes &self and mutates only atomic counters); restarts are covered by the checks, not by the theorem.",
         "Coq proof outside a machine-checked refuted class + differential histories and gated traces", "DESIGN 5/C07"),
 "C08": ("Theorems (same small-step model, any interleaving/batching/failures): a chunk file that is gone was requested by a flush whose journal end (behind the purge record) is durable in the files that remain; the files present are always a contiguous run in creation order of the files ever created (oldest-first, no holes); without failures every requested removal is carried out once the worker has caught up; exactly the closed chunks whose closing last id is <= the purge point are requested; under a Raft-legal history every live entry's chunk file exists (between API calls). K-trace with purge-heavy schedules and failures; unlink order checked on traces; snapshots after unlinks cut to their synced bytes must recover a prefix of the history.",
         COMMON_NOTE + "Partial w.r.t. the OS (fdatasync/unlink durability and ordering assumed). Interpretation: 'holding nothing above the purge point' is read on the chunk's closing last id (what pop_obsolete tests).",
         "Coq invariant proof on a small-step system + trace validation + crash images after unlinks", "DESIGN 5/C08"),
 "C09": ("Theorems: CRC-32 detects every single altered byte (any length); a single altered byte in a complete record is never accepted as a record of the same length (InvalidData / UnexpectedEof / different-length checksum coincidence); checksum bytes and all fixed fields always give InvalidData; a damaged record not followed only by zeros, or a missing middle chunk, makes open fail with the directory untouched. Two refuted classes are carried as machine-checked witnesses and known findings (length-prefix flip in the newest chunk is absorbed as a torn tail; a refused open truncates an older chunk). Exhaustive byte-flip sweeps on generated images run on implementation and model.",
         COMMON_NOTE + "Partial: a 32-bit checksum coincidence on a shape-changing alteration cannot be excluded by any proof; it is an explicit disjunct of the theorem and evaluated per case in the sweep.",
         "Coq proof (CRC linearity, codec canonical form) + exhaustive single-byte sweeps", "DESIGN 5/C09"),
 "C10": ("Theorems: every cut of a clean newest chunk is 'complete records + torn record'; for every such tail and every zero tail of any length, with truncation enabled open succeeds with exactly the complete records replayed, the file cut back and a fresh chunk at the cut (or the record-less file removed), with truncation disabled open fails and the directory is untouched. All cut positions and zero tails of generated images run on implementation and model.",
         COMMON_NOTE, "Coq proof (scan/recovery lemmas) + exhaustive cut/zero-tail sweeps", "DESIGN 5/C10"),
 "C11": ("Theorems: a structural invariant of every reachable state (file names are global offsets, files abut, every file is a sequence of well-formed records headed by the closing state of its predecessor, chunk offset tables are those of the records, index entries point at their own Append record); an accepted record appends exactly its encoding, the returned segment locates it, a rotation starts a file named by the end offset holding the state snapshot; rotation exactly at the limit (0 and 1 included); on_disk_size; after flush + idle the directory is the logical journal. Differential histories incl. raw file bytes, and an independent decoder checking layout, call order, segments and rotation discipline on the implementation's files.",
         COMMON_NOTE + "Restarts are not covered by C11_invariant (see C02). The file-name codec theorems (round trip, order) are proved for the model in Model/Names.v.",
         "Coq invariant proof + raw-byte differential histories + independent decoder oracle", "DESIGN 5/C11"),
 "C12": ("Machine-checked theorems about the Gallina codec (round trip with any tail, canonical form, no over-read, consumed = reported size, every proper prefix of an encoding decodes to UnexpectedEof, totality); tied to the crate by differential encoding/decoding of structured records and a malformed byte stream; the property is also evaluated directly on the implementation.",
         COMMON_NOTE + "Record lengths < 2^32 (the encoder truncates the length with `as u32`, stated as wf_bytes).",
         "Coq proof (codec combinator contract) + differential correspondence", "DESIGN 5/C12"),
 "C13": ("Theorems on a lock-protocol model (any number of contenders, any interleaving): at most one owner; every chunk-file access is made by the current lock holder; a refused attempt leaves the contender idle and unable to touch a chunk file; after the owner's drop the next attempt succeeds. Tie: races of threads and processes on the real crate (RaftLog and Dump), every flock / LOCK-file / chunk-file system call logged with a system-wide monotonic clock; the global order must be a run of the model and satisfy the property.",
         COMMON_NOTE + "Partial: the kernel's flock semantics (exclusive per open file description, released by unlock/close) is the model's assumption; real races sample the interleavings.",
         "Coq proof on a lock-protocol model + multi-process race traces", "DESIGN 5/C13"),
 "C14": ("Theorems: after drop, once the old worker has finished, no event of that instance changes the directory; and the worker always finishes (the join in drop terminates when no I/O error occurs). Tie: K-trace with the worker held at each remaining system call while the store is dropped (drop must block), then reopen, purge and flush on the new instance.",
         COMMON_NOTE + "Partial: thread scheduling is replaced by gated schedules; relies on the repair 38c8669 (drop joins the worker, lock released last).",
         "Coq proof on a small-step system + gated drop/reopen traces", "DESIGN 5/C14"),
 "C15": ("Theorems: in every state reachable by any operations with any arguments (refused writes, truncations, purges, drains, worker progress) the size counter equals the total payload size of the resident entries and keys are distinct; after an accepted append an over-limit cache holds only entries above the boundary in force; after a drain nothing at or below the boundary is resident. Differential histories under tiny cache limits with stat() and the resident set (verif-hooks accessor) after every operation.",
         COMMON_NOTE + "Restarts anywhere in the history are covered (any configuration and cache limits at every restart, unflushed bytes lost); update_state is excluded (it can install an arbitrary state); arguments well-formed (u64/u32 ranges).",
         "Coq invariant proof + differential histories with resident-set oracle", "DESIGN 5/C15"),
 "C16": ("Theorem: no run from an empty directory — any operations, any argument values, any configurations, restarts included — produces a panic as the result of a call; one-step versions for writes and inverted reads; the u64::MAX guard. Differential histories with boundary arguments on debug (overflow checks on) and release builds under catch_unwind.",
         COMMON_NOTE + "The model carries the partial operations of the code (index underflow, BTreeMap range, offsets[l-2]); arithmetic on journal offsets is unbounded N (journals below 2^64 bytes assumed).",
         "Coq invariant proof + boundary-argument differential histories", "DESIGN 5/C16"),
}

ALL = ["C%02d" % i for i in range(1, 17)]


def entry(pid):
    text, note, tech, ref = CLAIMS[pid]
    return {"property_id": pid, "quick_cmd": "./check %s quick" % pid, "thorough_cmd": "./check %s thorough" % pid,
            "evidence_file": "/verif/evidence/%s.json" % pid, "replay_cmd_template": "./check replay {path}",
            "engine": "coq-model+correspondence",
            "level_claimed": {"category": "proof", "text": text, "design_ref": ref},
            "level_note": note, "technique": tech}


def main(claimed):
    m = {"version": 1, "setup_cmd": "./check setup",
         "hooks": {"guard": "verif-hooks (cargo feature of raft-log, off by default)",
                   "enable": "the harness depends on raft-log with features=[\"verif-hooks\"] (one read-only accessor: RaftLog::verif_cache_resident); everything else is observed through the public API and libc symbol interposition inside the harness binary",
                   "baseline_off_cmd": "cd /repo && cargo test --workspace --no-fail-fast --offline",
                   "source_commits": ["cf1a708"], "add_only": True},
         "engines": [{"name": "coq-model+correspondence", "path": "/verif/coq, /verif/ocaml, /verif/harness, /verif/lib",
                      "serves_properties": claimed,
                      "kind_free_text": "hand-written executable Gallina model with machine-checked theorems (Coq 8.16.1), extracted to OCaml and compared with the real crate on generated inputs, histories, traces and disk images on every run"}],
         "checks": [entry(p) for p in claimed],
         "not_applicable": [{"property_id": p, "reason": "check under construction in this round; not yet claimed"} for p in ALL if p not in claimed],
         "notes": "See DESIGN.md. Scratch data lives under /verif/.cache (ignored by git) and /dev/shm."}
    json.dump(m, open(os.path.join(HERE, "MANIFEST.json"), "w"), indent=1)


if __name__ == "__main__":
    import sys
    main(sys.argv[1:] or sorted(CLAIMS))
