"""Builds seeded/<id>/meta.json and seeded/README.md from what lib/seed_eval.sh stored."""
import json, os, re
HERE = os.path.dirname(os.path.dirname(os.path.abspath(__file__)))
S = os.path.join(HERE, "seeded")
rows = []
for d in sorted(os.listdir(S)):
    p = os.path.join(S, d)
    if not os.path.isdir(p) or not os.path.exists(os.path.join(p, "patch.diff")):
        continue
    ver = open(os.path.join(p, "verify.txt")).read() if os.path.exists(os.path.join(p, "verify.txt")) else ""
    chk = open(os.path.join(p, "checks.txt")).read() if os.path.exists(os.path.join(p, "checks.txt")) else ""
    am = open(os.path.join(p, "agent_meta.txt")).read() if os.path.exists(os.path.join(p, "agent_meta.txt")) else ""
    tests = re.search(r"existing tests: (\d+) passed (\d+) failed", ver)
    dw = (re.search(r"with patch, demo:(.*)", ver) or ["", " "])[1]
    demo_with = ("FAILED" in dw) or ("test result: ok" not in dw and dw.strip() != "")
    demo_without = "ok." in (re.search(r"without patch, demo:(.*)", ver) or [""," "])[1]
    def verdicts(chk):
      results = {}
      blocks = re.split(r"^== ", chk, flags=re.M)[1:]
      for b in blocks:
        cid = b.split(":", 1)[0]
        body = b.split(":", 1)[1] if ":" in b else ""
        vio = [l for l in body.splitlines() if "VIOLATION" in l]
        if any("no-failing-input-found" not in l for l in vio):
            results[cid] = "VIOLATION with failing input"
        elif vio:
            results[cid] = "VIOLATION (model correspondence or proof broken, no failing input found)"
        elif "OK property" in body:
            results[cid] = "OK (not detected by this check)"
        elif "KNOWN-FINDING" in body:
            results[cid] = "only the known findings of the unchanged tree (not detected)"
        else:
            results[cid] = "no verdict"
      return results
    chk2 = open(os.path.join(p, "checks2.txt")).read() if os.path.exists(os.path.join(p, "checks2.txt")) else ""
    results2 = verdicts(chk2)
    results = {}
    blocks = re.split(r"^== ", chk, flags=re.M)[1:]
    for b in blocks:
        cid = b.split(":", 1)[0]
        body = b.split(":", 1)[1] if ":" in b else ""
        vio = [l for l in body.splitlines() if "VIOLATION" in l]
        if any("no-failing-input-found" not in l for l in vio):
            results[cid] = "VIOLATION with failing input"
        elif vio:
            results[cid] = "VIOLATION (model correspondence or proof broken, no failing input found)"
        elif "OK property" in body:
            results[cid] = "OK (not detected by this check)"
        elif "KNOWN-FINDING" in body:
            results[cid] = "only the known findings of the unchanged tree (not detected)"
        else:
            results[cid] = "no verdict"
    files = re.findall(r"^\+\+\+ b/(\S+)", open(os.path.join(p, "patch.diff")).read(), re.M)
    if d.startswith("benign"):
        continue
    prop = "C" + d[1:]
    meta = {
        "property_broken": prop,
        "changed_files": files,
        "what_it_needs_to_manifest": am.strip()[:2500],
        "confirmed": {
            "existing_tests_with_change": tests.group(0) if tests else "?",
            "demonstration_fails_with_change": demo_with,
            "demonstration_passes_without_change": demo_without,
            "how": "lib/verify_mutant.sh %s (cargo test --offline in a scratch worktree; demo copied to tests/zz_demo.rs)" % d,
        },
        "checks_run_against_it": {"how": "lib/mutant.sh seeded/%s/patch.diff <checks> (git apply in /repo, ./check <id> quick, git checkout)" % d,
                                  "results": results},
    }
    if results2:
        meta["checks_run_against_it"]["results_after_strengthening_the_checks"] = results2
    json.dump(meta, open(os.path.join(p, "meta.json"), "w"), indent=1)
    rows.append((d, files, results, demo_with and demo_without and tests and tests.group(2) == "0", results2))
benign = []
for d in sorted(os.listdir(S)):
    p = os.path.join(S, d)
    if os.path.isdir(p) and d.startswith("benign") and os.path.exists(os.path.join(p, "checks.txt")):
        chk = open(os.path.join(p, "checks.txt")).read()
        benign.append((d, chk.count("OK property"), chk.count("VIOLATION")))
with open(os.path.join(S, "README.md"), "w") as fh:
    fh.write("# Seeded changes\n\nEach directory holds `patch.diff` (the change), `demo_test.rs` (the independent demonstration), `agent_meta.txt` (the author's description), `verify.txt` (confirmation run), `checks.txt` (our checks run against it) and `meta.json`. None of these changes is ever committed to /repo.\n\n| change | files | confirmed | checks and verdicts |\n|---|---|---|---|\n")
    for d, files, results, ok, results2 in rows:
        fh.write("| %s | %s | %s | %s |\n" % (d, ", ".join(os.path.basename(f) for f in files), "yes" if ok else "NO", "; ".join("%s: %s" % kv for kv in results.items()) + ((" — after strengthening: " + "; ".join("%s: %s" % kv for kv in results2.items())) if results2 else "")))
with open(os.path.join(S, "README.md"), "a") as fh:
    fh.write("\n## Behaviour-preserving rewrites (no alarm expected)\n\nEight refactorings written by an independent sub-agent (descriptions in `benign_README.txt`), each run against 13 checks:\n\n| rewrite | checks OK | violations |\n|---|---|---|\n")
    for d, ok, vio in benign:
        fh.write("| %s | %d | %d |\n" % (d, ok, vio))
print(open(os.path.join(S, "README.md")).read())
