#!/bin/sh
# Confirm a seeded change delivered in /tmp/mut/<ID>/out: existing tests pass with it,
# the demonstration fails with it and passes without it. Prints a summary.
id="$1"; w=/tmp/mut/$id
cd $w || exit 2
export CARGO_NET_OFFLINE=true
git checkout -q -- . 2>/dev/null; git clean -fdq tests 2>/dev/null
git apply out/patch.diff || { echo "PATCH DOES NOT APPLY"; exit 1; }
t=$(cargo test --offline 2>&1 | grep -E "^test result" | awk '{p+=$4; f+=$6} END {print p" passed "f" failed"}')
echo "with patch, existing tests: $t"
demo=$(ls out/*.rs | head -1)
cp $demo tests/zz_demo.rs
r1=$(cargo test --offline --test zz_demo 2>&1 | grep -E "^test result|error(\[|:)" | head -2 | tr '\n' ' ')
echo "with patch, demo: $r1"
git checkout -q -- src
r2=$(cargo test --offline --test zz_demo 2>&1 | grep -E "^test result|error(\[|:)" | head -2 | tr '\n' ' ')
echo "without patch, demo: $r2"
rm -f tests/zz_demo.rs
git apply out/patch.diff
