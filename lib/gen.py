"""Seeded generators of cases: records and byte strings for the codec, structured
mostly-legal operation histories driven by a small reference state (used only to
steer generation; the oracle is the extracted Coq specification)."""
import random

U64MAX = (1 << 64) - 1
BOUNDARY_INTS = [0, 1, 2, 255, 256, (1 << 32) - 1, 1 << 32, (1 << 32) + 1, 1 << 63, U64MAX - 1, U64MAX]


def hx(b):
    return "x" + bytes(b).hex()


def rand_payload(rnd, big=0.08):
    r = rnd.random()
    if r < 0.15:
        return b""
    if r < 0.15 + big:
        n = rnd.choice([255, 256, 257, 1000, 1024, 4096, rnd.randint(300, 6000)])
        return bytes(rnd.getrandbits(8) for _ in range(n))
    if r < 0.5:
        return bytes(rnd.choice(b"abcdefghijklmnopqrstuvwxyz") for _ in range(rnd.randint(1, 12)))
    if r < 0.56:
        return "héllo wörld ✓".encode()[: rnd.randint(1, 18)]
    if r < 0.62:
        # longer text of multi-byte characters (what a payload printed with {:?} looks like matters
        # to whatever the crate formats into an error or a log line)
        return ("".join(rnd.choice(["日本語", "ключ", "żółć", "✓✗", "a", " "]) for _ in range(rnd.randint(8, 60)))).encode()
    return bytes(rnd.getrandbits(8) for _ in range(rnd.randint(1, 40)))


def rand_u64(rnd):
    r = rnd.random()
    if r < 0.35:
        return rnd.choice(BOUNDARY_INTS)
    if r < 0.7:
        return rnd.randint(0, 50)
    return rnd.getrandbits(rnd.choice([8, 16, 32, 48, 64]))


def rand_pair(rnd):
    return (rand_u64(rnd), rand_u64(rnd))


def rand_opair(rnd):
    return None if rnd.random() < 0.3 else rand_pair(rnd)


def s_opair(o):
    return "-" if o is None else "%d:%d" % o


def s_obytes(o):
    return "-" if o is None else hx(o)


def s_state(st):
    v, l, c, p, u = st
    return "%s %s %s %s %s" % (s_opair(v), s_opair(l), s_opair(c), s_opair(p), s_obytes(u))


def rand_state(rnd):
    return (rand_opair(rnd), rand_opair(rnd), rand_opair(rnd), rand_opair(rnd),
            None if rnd.random() < 0.3 else rand_payload(rnd))


def rand_record(rnd):
    k = rnd.randrange(6)
    if k == 0:
        return "V %d %d" % rand_pair(rnd)
    if k == 1:
        t, i = rand_pair(rnd)
        return "A %d %d %s" % (t, i, hx(rand_payload(rnd, big=0.2)))
    if k == 2:
        return "C %d %d" % rand_pair(rnd)
    if k == 3:
        return "T %s" % s_opair(rand_opair(rnd))
    if k == 4:
        return "P %d %d" % rand_pair(rnd)
    return "S " + s_state(rand_state(rnd))


# ---------------------------------------------------------------- configurations
CFG_RECS = [0, 1, 2, 3, 5, 8, 1 << 20, U64MAX]       # U64MAX: the limit switched off
CFG_SIZE = [0, 1, 60, 150, 400, 1 << 30, U64MAX]
CFG_RBUF = [0, 1, 7, 64, 64 << 20]
CFG_ITEMS = [0, 1, 2, 3, 100000, U64MAX]
CFG_CAP = [0, 1, 10, 1 << 30, U64MAX]


def rand_cfg(rnd, big_cache=False, small_cache=False, trunc=None):
    recs = rnd.choice(CFG_RECS) if rnd.random() < 0.8 else rnd.randint(2, 12)
    size = rnd.choice(CFG_SIZE) if rnd.random() < 0.6 else 1 << 30
    if big_cache:
        items, cap = 100000, 1 << 30
    elif small_cache:
        items, cap = rnd.choice([0, 1, 2, 3]), rnd.choice([0, 1, 10, 1 << 30, 1 << 30])
    else:
        items, cap = rnd.choice(CFG_ITEMS), rnd.choice(CFG_CAP)
    tr = rnd.choice([0, 1, 1]) if trunc is None else trunc
    vals = [items, cap, recs, size, tr, rnd.choice(CFG_RBUF)]
    # a value that is the crate's default is left unset half of the time ("-")
    out = [("-" if v == CFG_DEFAULTS[i] and rnd.random() < 0.5 else str(v)) for i, v in enumerate(vals)]
    return " ".join(out)


CFG_DEFAULTS = [100000, 1 << 30, 1 << 20, 1 << 30, 1, 64 << 20]


def cfg_ints(tokens):
    """the numeric values of a configuration ("-" = the crate's default)"""
    return [CFG_DEFAULTS[i] if t == "-" else int(t) for i, t in enumerate(tokens[:6])]


# ---------------------------------------------------------------- steering state
class Sim:
    """A plain in-memory Raft log, only used to steer the generator."""

    def __init__(self):
        self.vote = None
        self.entries = []          # (term, index, payload)
        self.committed = None
        self.purged = None
        self.term = 1

    def last(self):
        if self.entries:
            return (self.entries[-1][0], self.entries[-1][1])
        return self.purged

    def next_index(self):
        l = self.last()
        return 0 if l is None else l[1] + 1


def gen_history(rnd, nops, p_reject=0.12, p_boundary=0.15, flush_every=None, reads=True, allow_limits=False, max_batch=4, noop_purge=True, index_limit_rejects=False, partial_batches=True, term_jump_purges=False):
    """Returns a list of op strings (without the trailing observation ops)."""
    s = Sim()
    ops = []
    stats = dict(accepted=0, rejected=0, boundary=0, truncates=0, purges=0, appends=0, big=0)
    flush_p = rnd.choice([0.05, 0.15, 0.3]) if flush_every is None else flush_every

    def obs():
        if reads and rnd.random() < 0.35:
            lo = max(0, s.next_index() - rnd.randint(0, 12))
            hi = s.next_index() + rnd.randint(0, 3)
            if rnd.random() < 0.08:
                lo, hi = hi, lo                      # an inverted range reads nothing
            ops.append("R %d %d" % (lo, hi))
        if rnd.random() < 0.5:
            ops.append("G")

    for _ in range(nops):
        r = rnd.random()
        last = s.last()
        if r < p_reject:
            # an operation the specification refuses
            k = rnd.randrange(7 if index_limit_rejects else 5)
            stats["rejected"] += 1
            if partial_batches and max_batch >= 3 and last is not None and rnd.random() < 0.3:
                # a batch whose first entries are accepted and whose last one is refused (gap, or
                # id not above the one before): the accepted ones stay, the refused one leaves no trace
                term = max(last[0], s.term)
                n_ok = rnd.randint(0 if rnd.random() < 0.3 else 1, max_batch - 1)
                es = []
                for j in range(n_ok):
                    pl = rand_payload(rnd)
                    s.entries.append((term, last[1] + 1 + j, pl))
                    es.append("%d %d %s" % (term, last[1] + 1 + j, hx(pl)))
                bad_idx = last[1] + 1 + n_ok + rnd.choice([1, 2]) if rnd.random() < 0.6 else last[1] + n_ok
                es.append("%d %d %s" % (term, bad_idx, hx(rand_payload(rnd))))
                if rnd.random() < 0.45:
                    # ... and the refused entry is NOT the last one: the entries behind it would be
                    # acceptable had the refused one not been there (a re-delivered entry in front of
                    # new ones, an out-of-order batch); the batch stops at the refusal all the same
                    for j in range(rnd.randint(1, 2)):
                        es.append("%d %d %s" % (term, last[1] + 1 + n_ok + j, hx(rand_payload(rnd))))
                    stats["refused_in_mid_batch"] = stats.get("refused_in_mid_batch", 0) + 1
                ops.append("A " + " ".join(es))
                stats["appends"] += n_ok
                obs()
                continue
            if k == 5:
                # a purge the crate refuses outright (index u64::MAX can not be stored)
                ops.append("P %d 18446744073709551615" % (last[0] if last else s.term))
            elif k == 6:
                ops.append("A %d 18446744073709551615 %s" % (last[0] if last else s.term, hx(rand_payload(rnd))))
            elif k == 0 and s.vote is not None and s.vote > (0, 0):
                # votes are partially ordered: a lower term is smaller, the same term with
                # another candidate is incomparable; both are refused
                if s.vote[0] > 0 and rnd.random() < 0.5:
                    v = (s.vote[0] - 1, rnd.randint(0, 9))
                else:
                    v = (s.vote[0], s.vote[1] + rnd.choice([1, 2, 7]) if rnd.random() < 0.5 or s.vote[1] == 0 else s.vote[1] - 1)
                ops.append("V %d %d" % v)
            elif k == 1 and last is not None:
                # log id not greater than last
                cand = rnd.choice([last, (last[0], max(0, last[1] - 1)), (max(0, last[0] - 1), last[1] + 1)])
                ops.append("A %d %d %s" % (cand[0], cand[1], hx(rand_payload(rnd))))
            elif k == 2 and last is not None:
                # non consecutive
                ops.append("A %d %d %s" % (max(s.term, last[0]), last[1] + rnd.randint(2, 5), hx(rand_payload(rnd))))
            elif k == 3 and s.committed is not None and s.committed > (0, 0):
                c = s.committed
                c2 = (c[0], c[1] - 1) if c[1] > 0 else (c[0] - 1, c[1] + 3)
                ops.append("C %d %d" % c2)
            else:
                # truncate at an index that does not exist
                ni = s.next_index()
                lo = 0 if s.purged is None else s.purged[1] + 1
                cands = [ni + rnd.randint(1, 4)]
                if lo > 0:
                    cands.append(rnd.randint(0, lo - 1))
                if not s.entries and lo == 0 and ni == 0:
                    cands = [rnd.randint(1, 5)]
                elif s.entries and s.entries[0][1] > lo:
                    cands.append(s.entries[0][1])       # entry i-1 missing (first append at non-zero index)
                ops.append("T %d" % rnd.choice(cands))
            obs()
            continue
        r = rnd.random()
        if r < 0.45:
            # append 1..4 consecutive entries
            if rnd.random() < 0.2:
                s.term += rnd.randint(1, 2)
            n = min(max_batch, rnd.choice([1, 1, 1, 2, 3, 4]))
            es = []
            for _ in range(n):
                l = s.last()
                if l is None:
                    idx = rnd.choice([0, 0, 0, 1, 5, 17]) if rnd.random() < p_boundary * 2 else 0
                    term = s.term
                else:
                    idx = l[1] + 1
                    # a re-append after truncation may use a term lower than the removed suffix
                    term = max(l[0], s.term if rnd.random() < 0.7 else l[0])
                p = rand_payload(rnd)
                if len(p) > 200:
                    stats["big"] += 1
                s.entries.append((term, idx, p))
                es.append("%d %d %s" % (term, idx, hx(p)))
                if idx != 0 and l is None:
                    stats["boundary"] += 1
            ops.append("A " + " ".join(es))
            stats["appends"] += n
        elif r < 0.55:
            s.term = max(s.term, (s.vote or (0, 0))[0])
            if rnd.random() < 0.5:
                s.term += 1
            v = (s.term, rnd.randint(0, 5))
            if s.vote is not None and v[0] == s.vote[0]:
                v = s.vote                      # same term: only the same candidate again is accepted
            s.vote = v
            ops.append("V %d %d" % v)
        elif r < 0.67:
            # truncate at a live index / purged+1 / last+1
            lo = 0 if s.purged is None else s.purged[1] + 1
            ni = s.next_index()
            first = s.entries[0][1] if s.entries else None
            cands = [lo]
            if s.entries:
                cands += [ni, rnd.randint(first + 1, ni) if ni > first else ni]
                if first == lo:
                    cands.append(rnd.randint(lo, ni))
            i = rnd.choice(cands)
            ok = (i == lo) or any(e[1] == i - 1 for e in s.entries)
            if ok:
                removed = [e for e in s.entries if e[1] >= i]
                s.entries = [e for e in s.entries if e[1] < i]
                if removed:
                    stats["truncates"] += 1
                    # allow re-append at a lower term than the removed suffix
                    l = s.last()
                    s.term = l[0] if (l is not None and rnd.random() < 0.5) else s.term
                if i in (lo, ni):
                    stats["boundary"] += 1
            else:
                stats["rejected"] += 1
            ops.append("T %d" % i)
        elif r < 0.79:
            # purge: an entry of the log, or beyond last, or an already purged index
            k = rnd.random()
            if s.entries and k < 0.7:
                e = rnd.choice(s.entries[: max(1, len(s.entries) * 2 // 3)]) if rnd.random() < 0.7 else rnd.choice(s.entries)
                u = (e[0], e[1])
            elif k < 0.85:
                l = s.last()
                u = (max(s.term, l[0] if l else 0), (l[1] if l else -1) + rnd.randint(1, 4))
                stats["boundary"] += 1
            elif term_jump_purges and len(s.entries) >= 3 and rnd.random() < 0.5:
                # NOT Raft-legal, but accepted by the crate: a purge point ahead of `last` by TERM and
                # behind it by index; `last` jumps to it and the next append lands on an index that
                # is still in the index map (only used where no reference-log oracle is involved)
                e = s.entries[rnd.randrange(0, len(s.entries) - 1)]
                u = (s.entries[-1][0] + rnd.randint(1, 2), e[1])
                s.term = max(s.term, u[0])
                s.entries = []                       # steer: the next append follows the purge point
                s.purged = u
                stats["purges"] += 1
                ops.append("P %d %d" % u)
                obs()
                continue
            elif s.purged is not None and s.purged[0] > 0 and rnd.random() < 0.3:
                # a purge point with a LOWER term but a higher index than the current one (ids are
                # compared as (term, index), purging goes by index): accepted by the crate
                u = (s.purged[0] - 1, s.purged[1] + rnd.randint(1, 3))
                stats["boundary"] += 1
            elif s.purged is not None:
                u = s.purged if rnd.random() < 0.5 else (s.purged[0], rnd.randint(0, s.purged[1]))
            elif s.entries:
                u = (s.entries[0][0], s.entries[0][1])
            else:
                u = (s.term, rnd.randint(0, 3))          # beyond an empty log
            lo = 0 if s.purged is None else s.purged[1] + 1
            if u[1] < lo and not noop_purge:
                continue
            if u[1] >= lo:
                s.entries = [e for e in s.entries if e[1] > u[1]]
                if s.purged is None or s.purged < u:
                    s.purged = u
                stats["purges"] += 1
            ops.append("P %d %d" % u)
        elif r < 0.89:
            c = None
            if s.entries and rnd.random() < 0.8:
                e = rnd.choice(s.entries)
                c = (e[0], e[1])
            else:
                c = (s.term, rnd.randint(0, s.next_index() + 2))
            if s.committed is not None and c < s.committed:
                c = s.committed if rnd.random() < 0.5 else (s.committed[0], s.committed[1] + 1)
            s.committed = c
            ops.append("C %d %d" % c)
        else:
            ops.append("U " + s_obytes(None if rnd.random() < 0.2 else rand_payload(rnd)))
        stats["accepted"] += 1
        if rnd.random() < flush_p:
            ops.append("F %d" % rnd.choice([0, 1, 1]))
        obs()
    return ops, stats, s


def sync_ops(ops):
    """K-seq runs in lock step with the worker: wait_worker_idle after every operation
    that may have produced worker requests."""
    out = []
    for o in ops:
        out.append(o)
        if o[0] in "VATPCUSF":
            out.append("I")
    return out


def cfg_rotates(cfg):
    """can this configuration ever rotate a chunk in a test-sized history?"""
    t = cfg_ints(cfg.split())
    return t[2] < (1 << 20) or t[3] < (1 << 30)
