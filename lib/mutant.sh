#!/bin/sh
# Apply a seeded change to /repo, run the given checks (quick), always undo.
# usage: lib/mutant.sh <patch.diff> <C01> [C02 ...]
patch="$1"; shift
cd /repo || exit 2
if ! git diff --quiet; then echo "/repo has local changes"; exit 2; fi
git apply "$patch" || { echo "patch does not apply"; exit 2; }
cd /verif
# evidence files are rewritten by every run: keep the ones of the unchanged tree
rm -rf /verif/.cache/evidence.keep; cp -r /verif/evidence /verif/.cache/evidence.keep
for p in "$@"; do
  out=$(timeout 1500 ./check "$p" quick 2>/dev/null | grep -E "^(VIOLATION|OK|KNOWN|ERROR)" | cut -c1-160)
  echo "== $p: $out"
done
git -C /repo checkout -- . 
rm -rf /verif/evidence; mv /verif/.cache/evidence.keep /verif/evidence
git -C /repo status --short | head -3
