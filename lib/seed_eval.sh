#!/bin/sh
# verify a delivered seeded change, run the given checks against it, store it under /verif/seeded
id="$1"; shift
/verif/lib/verify_mutant.sh $id > /tmp/mut/$id.verify.txt 2>&1
cat /tmp/mut/$id.verify.txt | tail -3
mkdir -p /verif/seeded/$id
cp /tmp/mut/$id/out/patch.diff /verif/seeded/$id/patch.diff
cp $(ls /tmp/mut/$id/out/*.rs | head -1) /verif/seeded/$id/demo_test.rs
cp /tmp/mut/$id/out/meta.txt /verif/seeded/$id/agent_meta.txt 2>/dev/null
cp /tmp/mut/$id.verify.txt /verif/seeded/$id/verify.txt
/verif/lib/mutant.sh /verif/seeded/$id/patch.diff "$@" > /verif/seeded/$id/checks.txt 2>&1
cat /verif/seeded/$id/checks.txt | grep "^==" 
