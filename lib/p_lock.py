"""C13: directory ownership. Races threads and processes through open/use/drop/reopen,
records every flock / LOCK-file / chunk-file system call with a system-wide monotonic
timestamp, and checks the global order against Model/Lock.v and against the property."""
import os, subprocess
import common as C, core

core.register("C13", "Props.C13", "theories/Props/C13.vo",
              ["C13_mutex", "C13_touch_only_owner", "C13_refused_is_inert", "C13_reacquire"])

TOUCH = ("create", "write", "sync", "fsync", "trunc", "unlink", "openchunk", "listdir")


def analyse(lines):
    """returns (model event tokens, problems, stats)"""
    evs = []
    for l in lines:
        t = l.split()
        if len(t) < 4:
            continue
        evs.append((int(t[0]), t[1], t[2], t[3:]))
    evs.sort(key=lambda e: e[0])
    ids = {}
    holder = None            # who name
    toks, problems = [], []
    stats = dict(attempts=0, granted=0, refused=0, touches=0, worker_touches=0, overlaps=0)
    in_attempt = {}
    pending_drop = []
    trying, fails = {}, []
    api_hold = {}
    cur_attempt, held_outer, open_hold, refusals = {}, [], {}, []
    for ts, who, role, rest in evs:
        pid = who.split(".")[0]
        is_worker = who.endswith("raft_log_wal_flush_worker")
        c = ids.setdefault(who, len(ids)) if not is_worker else None
        if role == "h":
            # API-level intervals: [attempt, got] acquiring, [got, dropping] surely held, [dropping, dropped] releasing
            if rest[0] == "attempt":
                cur_attempt[who] = ts
            elif rest[0] == "got":
                held_outer.append([who, cur_attempt.get(who, ts), None])
                open_hold[who] = held_outer[-1]
            elif rest[0] == "dropped":
                if who in open_hold:
                    open_hold.pop(who)[2] = ts
            elif rest[0] == "refused":
                refusals.append((who, cur_attempt.get(who, ts), ts))
            if rest[0] == "attempt":
                stats["attempts"] += 1
                in_attempt[who] = True
            elif rest[0] == "refused":
                stats["refused"] += 1
                in_attempt[who] = False
                if rest[1] != "WouldBlock":
                    problems.append("a refused open returned %s instead of a lock error" % rest[1])
            elif rest[0] == "got":
                stats["granted"] += 1
                # ownership as the API reports it: from a successful open (logged after it
                # returned) to the start of the drop (logged before it is called)
                others = [w for w in api_hold if w != who]
                if others:
                    problems.append("%s was given the directory (%s) while %s still had it open" % (who, rest[1], others[0]))
                api_hold[who] = True
            elif rest[0] == "dropping":
                api_hold.pop(who, None)
            elif rest[0] == "panic":
                problems.append("open panicked")
            elif rest[0] in ("append", "flush", "purge") and not rest[1] in ("ok", "unit"):
                problems.append("the owner's %s failed: %s" % (rest[0], " ".join(rest[1:])))
            continue
        k = rest[0]
        if is_worker and k in ("flock", "openlock"):
            # the lock belongs to the store; its worker thread has no business with it
            if k == "flock" and rest[1] == "unlock":
                problems.append("a flush worker of process %s released the directory lock while its store (%s) still has the directory open" % (pid, holder))
                if holder is not None and holder.split(".")[0] == pid:
                    toks.append("d%d" % ids[holder])
                    holder = None
            continue
        if k == "openlock":
            toks.append("o%d" % c)
        elif k == "flock" and rest[1] == "trying":
            trying[c] = len(toks)             # number of ordered tokens before the attempt started
        elif k == "flock" and rest[1] == "lock":
            ok = rest[2] == "ok"
            if not ok:
                # a failed attempt was decided somewhere between its two log lines (and a
                # competitor's success may be logged only after it): resolved in a second pass
                fails.append((c, trying.pop(c, len(toks)), len(toks)))
                continue
            trying.pop(c, None)
            if ok and pending_drop:
                # the real unlock lies between its "unlock" (before the call) and "unlocked"
                # (after it) log lines: a successful attempt in between comes after it
                for pc in pending_drop:
                    toks.append("d%d" % pc)
                pending_drop.clear()
            toks.append("t%d%s" % (c, "+" if ok else "-"))
            if ok:
                if holder is not None:
                    stats["overlaps"] += 1
                    problems.append("%s obtained the directory lock while %s held it" % (who, holder))
                holder = who
        elif k == "flock" and rest[1] == "unlock":
            pending_drop.append(c)
            if holder == who:
                holder = None
        elif k == "flock" and rest[1] == "unlocked":
            if c in pending_drop:
                pending_drop.remove(c)
                toks.append("d%d" % c)
        elif k in TOUCH:
            stats["touches"] += 1
            if is_worker:
                stats["worker_touches"] += 1
                if holder is None or holder.split(".")[0] != pid:
                    problems.append("a flush worker of process %s touched chunk file %s while %s owns the directory" % (pid, rest[1] if len(rest) > 1 else "", holder))
                    toks.append("x%d" % (len(ids) + 50))
                else:
                    toks.append("x%d" % ids[holder])
            else:
                if holder != who:
                    problems.append("%s touched the chunk files (%s %s) without owning the directory (owner: %s)" % (who, k, rest[1] if len(rest) > 1 else "", holder))
                toks.append("x%d" % c)
    for pc in pending_drop:
        toks.append("d%d" % pc)
    # a refused attempt needs somebody else who may have had the directory at some moment of the
    # attempt (from the start of that owner's own attempt to the return of its drop)
    for (who, a, r) in refusals:
        if not any(w != who and lo <= r and (hi is None or hi >= a) for (w, lo, hi) in held_outer):
            problems.append("%s was refused the directory although nobody else had it open at any time during the attempt" % who)
    # second pass: order every failed attempt at the first point of its interval at which
    # somebody holds the lock; the interval is extended to just after the next logged success
    def holder_after(n):
        h = None
        for t in toks[:n]:
            if t[0] == "t" and t.endswith("+"):
                h = t
            elif t[0] == "d":
                h = None
        return h
    placed = []
    for (c, s0, e0) in fails:
        e1 = e0
        for j in range(e0, len(toks)):
            if toks[j][0] == "t" and toks[j].endswith("+"):
                e1 = j + 1
                break
        pos = s0
        for i in range(s0, e1 + 1):
            if holder_after(i) is not None:
                pos = i
                break
        placed.append((pos, "t%d-" % c))
    out = []
    placed.sort(key=lambda x: x[0])
    pi = 0
    for i in range(len(toks) + 1):
        while pi < len(placed) and placed[pi][0] == i:
            out.append(placed[pi][1])
            pi += 1
        if i < len(toks):
            out.append(toks[i])
    toks = out
    return toks, problems, stats


def run(ctx):
    proof = core.proof_stage("C13")
    core.builds()
    rnd = ctx.rnd
    nraces = ctx.scale(40, 300)
    base = "/dev/shm" if os.path.isdir("/dev/shm") else ctx.wd
    model_cases, metas = [], []
    bad = 0
    total = dict(attempts=0, granted=0, refused=0, touches=0, worker_touches=0, overlaps=0)
    for i in range(nraces):
        threads, procs, rounds = rnd.choice([1, 2, 3, 4]), rnd.choice([0, 1, 2, 3]), rnd.randint(2, 8)
        if threads * (procs + 1) < 2:
            threads = 2
        d = "%s/rll-%d-%d" % (base, os.getpid(), i)
        lf = d + ".log"
        seed = rnd.getrandbits(32)
        args = [C.harness_bin(), "lock", d, lf, str(threads), str(procs), str(rounds), str(seed)]
        try:
            subprocess.run(args, env=C.ENV, timeout=120, stdout=subprocess.DEVNULL, stderr=subprocess.DEVNULL)
        except subprocess.TimeoutExpired:
            ctx.fail("corr", "lock race did not finish", dict(check="lock", case=" ".join(args)))
            continue
        lines = open(lf).read().splitlines() if os.path.exists(lf) else []
        # after all contenders are gone the directory must open again
        toks, problems, stats = analyse(lines)
        for k, v in stats.items():
            total[k] += v
        ctx.count("contenders_%d" % (threads * (procs + 1)))
        case = "lock %d threads x %d processes, %d rounds, seed %d" % (threads, procs + 1, rounds, seed)
        for pr in problems[:2]:
            bad += 1
            if bad <= 3:
                ctx.fail("oracle", "C13 oracle: " + pr, dict(kind="lock", case=case, cmd=" ".join(args), events=len(lines)))
        model_cases.append("LOCK " + " ".join(toks))
        metas.append(case)
        for p in (lf,):
            try:
                os.remove(p)
            except OSError:
                pass
        subprocess.run(["rm", "-rf", d])
    # ownership across a drop, single process, worker held at its gate: while the first store
    # has not finished dropping (normal drop or a panic unwinding through its owner) nobody
    # else obtains the directory; once it has, the next attempt succeeds
    import p_trace
    tcases = []
    for i in range(ctx.scale(24, 150)):
        cfg = "100000 1073741824 %d 1073741824 1 64" % rnd.choice([2, 3, 100000])
        items = []
        for j in range(rnd.randint(1, 6)):
            items.append("A 1 %d x%02x" % (j, j))
            if rnd.random() < 0.4:
                items += ["F 1", rnd.choice(["w 1", "wi"])]
        if rnd.random() < 0.35:
            # a dump_data() snapshot that outlives the store: it is data, not an owner
            items.append("DSK")
            ctx.count("own_snapshot_kept_across_drop")
        items += ["F 1", "w %d" % rnd.choice([0, 1, 2, 3, 50]), rnd.choice(["dropheld", "panicheld", "panicheld"]),
                  "open " + cfg, "release", "open " + cfg, "G"]
        tcases.append("TRACE %s | %s" % (cfg, " ; ".join(items)))
    tlogs = p_trace.run_traces(tcases, ctx.wd, "own")
    tbad = 0
    for c, l in zip(tcases, tlogs):
        ev = [e.strip() for e in l.split(" ; ")]
        why = None
        dh = [i for i, e in enumerate(ev) if e.startswith("c dropheld ")]
        if l in ("hang", "harness-panic") or not dh:
            ctx.fail("corr", "the harness could not complete the ownership trace: " + l[:100], dict(check="lock", case=c))
            continue
        d = dh[0]
        res = [(i, e) for i, e in enumerate(ev) if i > d and (e == "c opened" or e.startswith("c openerr") or e == "c panic")]
        rel = [i for i, e in enumerate(ev) if i > d and e == "c dropped"]
        ctx.count("own_" + ev[d].split()[2])
        if not res:
            why = "no open attempt recorded"
        else:
            i1, r1 = res[0]
            if ev[d] == "c dropheld blocked" and r1 == "c opened" and (not rel or i1 < rel[0]):
                why = "a second store obtained the directory while the first one had not finished dropping (its worker was held with work pending)"
            late = [e for e in ev[i1:] if e.startswith("w ")]
            if r1 == "c opened" and late:
                why = "the directory was handed to a new owner while the previous store's worker still had work; it then changed the directory: " + late[0]
            if r1 == "c panic":
                why = "open panicked"
            if r1.startswith("c openerr") and r1 != "c openerr WouldBlock":
                why = "a refused open returned %s instead of a lock error" % r1
            if r1.startswith("c openerr") and (len(res) < 2 or res[1][1] != "c opened"):
                why = "the owner has been dropped but the next attempt does not succeed: " + (res[1][1] if len(res) > 1 else "no attempt")
        if why:
            tbad += 1
            if tbad <= 3:
                ctx.fail("oracle", "C13 oracle: " + why, dict(kind="trace", case=c, trace=l[:4000]))
    ctx.k_checks["oracle-ownership-across-drop"] = (tbad == 0, len(tcases))
    # ownership while the store is ALIVE, whatever has happened to its worker: idle, held with work
    # pending, or dead after a failed write / a failed unlink (the store object still exists and
    # can still create chunk files); every second attempt is refused with a lock error, and once
    # the store is dropped the next one succeeds
    acases = []
    for i in range(ctx.scale(24, 120)):
        R = rnd.choice([2, 3, 4])
        cfg = "100000 1073741824 %d 1073741824 1 64" % R
        items = ["A 1 %d x%02x" % (j, j) for j in range(rnd.randint(R, 3 * R))]
        kind = i % 4
        if kind == 0:
            items += ["F 1", "wi"]
        elif kind == 1:
            items += ["F 1", "w %d" % rnd.choice([0, 1, 2])]
        elif kind == 2:
            items += ["fault write %d" % rnd.choice([0, 0, 1]), "F 1", "wi"]
        else:
            items += ["F 1", "wi", "P 1 %d" % (R - 1), "fault unlink 0", "F 1", "wi"]
        items += ["open2 " + cfg, "A 1 99 x", "open2 " + cfg, "drop", "open " + cfg, "G"]
        acases.append("TRACE %s | %s" % (cfg, " ; ".join(items)))
    alogs = p_trace.run_traces(acases, ctx.wd, "alive")
    abad = 0
    for c, l in zip(acases, alogs):
        ev = [e.strip() for e in l.split(" ; ")]
        why = None
        if l in ("hang", "harness-panic"):
            why = "the trace did not complete (%s)" % l
        att = [e for e in ev if e.startswith("c open2 ") and len(e.split()) > 2 and e.split()[2] in ("opened", "err", "panic")]
        for e in att:
            if e == "c open2 opened":
                why = "a second store obtained the directory while the first one was alive"
            elif e != "c open2 err WouldBlock":
                why = "a refused open answered `%s` instead of a lock error" % e
        if not why and len(att) != 2:
            why = "open attempts not recorded: %s" % att
        if not why:
            d = [i for i, e in enumerate(ev) if e == "c dropped" or e.startswith("c drop")]
            fin = [e for e in ev[(d[-1] if d else 0):] if e == "c opened" or e.startswith("c openerr") or e == "c panic"]
            # (after an injected write failure the directory itself may be refused as damaged:
            # that is C05's subject; here the question is whether the LOCK is obtained)
            faulty = "fault" in c
            if not fin or (fin[-1] != "c opened" and not (faulty and fin[-1] == "c openerr InvalidData")) or "c flock lock ok" not in ev[(d[-1] if d else 0):]:
                why = "the owner has been dropped but the next attempt does not get the directory: %s" % (fin[-1] if fin else "no attempt")
        ctx.count("alive_%d" % (acases.index(c) % 4))
        if why:
            abad += 1
            if abad <= 3:
                ctx.fail("oracle", "C13 oracle: " + why, dict(kind="trace", case=c, trace=l[:4000]))
    ctx.k_checks["oracle-ownership-while-alive"] = (abad == 0, len(acases))
    rep = C.run_model(model_cases, ctx.wd, "lock")
    nb = 0
    for c, m, r in zip(model_cases, metas, rep):
        if r != "ok":
            nb += 1
            if nb <= 3:
                ctx.fail("corr", "K-check lock: the observed global order is not a run of the lock model", dict(check="lock", case=m, model_says=r, events=c[:3000]))
    ctx.k_checks["lock-trace-is-model-run"] = (nb == 0, len(model_cases))
    ctx.k_checks["oracle-mutual-exclusion-inert-refusal"] = (bad == 0, total["attempts"])
    for k, v in total.items():
        ctx.count(k, v)
    ctx.cov["evaluations"] = len(model_cases) + len(tcases)
    ctx.cov["distinct_nontrivial"] = len(set(c for c in model_cases if "-" in c))
    ctx.cov["traces_validated_against_impl"] = len(model_cases) - nb
    ctx.cov["rule"] = "races of 2-16 contenders (1-4 threads in 1-4 processes) looping open (RaftLog or Dump) / append+flush / drop with random pauses; every flock, LOCK-file open and chunk-file system call of every thread is logged with a system-wide monotonic timestamp; non-trivial = at least one refused attempt in the race"
    ctx.cov["samples"] = [model_cases[0][:600], metas[0]]
    return core.finish(ctx, proof)
