"""An independent (third) decoder of the record format, used only by oracles that look
at raw chunk files without going through the crate or the Coq model."""
import zlib


class Bad(Exception):
    pass


def _u(b, o, n):
    if o + n > len(b):
        raise EOFError
    return int.from_bytes(b[o:o + n], "big"), o + n


def _pair(b, o):
    x, o = _u(b, o, 8)
    y, o = _u(b, o, 8)
    return (x, y), o


def _opt(b, o, f):
    t, o = _u(b, o, 1)
    if t == 0:
        return None, o
    if t == 1:
        return f(b, o)
    raise Bad("option tag")


def _bytes(b, o):
    n, o = _u(b, o, 4)
    if o + n > len(b):
        raise EOFError
    return bytes(b[o:o + n]), o + n


def decode(b, o=0):
    """returns (record tuple, next offset); raises EOFError / Bad"""
    start = o
    tag, o = _u(b, o, 4)
    if tag == 0:
        v, o = _pair(b, o); rec = ("V", v)
    elif tag == 1:
        i, o = _pair(b, o); p, o = _bytes(b, o); rec = ("A", i, p)
    elif tag == 2:
        i, o = _pair(b, o); rec = ("C", i)
    elif tag == 3:
        i, o = _opt(b, o, _pair); rec = ("T", i)
    elif tag == 4:
        i, o = _pair(b, o); rec = ("P", i)
    elif tag == 5:
        ver, o = _u(b, o, 1)
        if ver != 1:
            raise Bad("version")
        v, o = _opt(b, o, _pair); l, o = _opt(b, o, _pair); c, o = _opt(b, o, _pair)
        p, o = _opt(b, o, _pair); u, o = _opt(b, o, _bytes)
        rec = ("S", (v, l, c, p, u))
    else:
        raise Bad("tag")
    crc, o2 = _u(b, o, 8)
    if crc != (zlib.crc32(bytes(b[start:o])) & 0xFFFFFFFF):
        raise Bad("checksum")
    return rec, o2


def decode_all(b):
    recs, o = [], 0
    while o < len(b):
        r, n = decode(b, o)
        recs.append((r, o, n - o))
        o = n
    return recs
