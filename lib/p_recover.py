"""K-recover based checks: C10 (torn / zero tail) and C09 (corruption, missing chunks)."""
import common as C, core, gen, pydec, p_seq

core.register("C10", "Props.C10", "theories/Props/C10.vo",
              ["C10_every_cut_has_this_shape", "C10_longest_prefix_open", "C10_truncate_disabled", "C10_dump_torn", "C10_dump_zero_tail_short"])
core.register("C09", "Props.C09", "theories/Props/C09.vo",
              ["C09_crc32_single_byte", "C09_single_byte_outcomes", "C09_checksum_field", "C09_fixed_fields",
               "C09_append_fixed_fields", "C09_open_refuses", "C09_middle_missing",
               "C09_refuted_length_flip_in_newest_chunk", "C09_refuted_refused_open_truncates_older_chunk"])

AFTER = "G ; R 0 100000 ; K ; A ; V 4000000000 1 ; F 1 ; I ; K ; X 100000 1073741824 4 1073741824 1 64 ; G ; R 0 100000"


def parse_disk(field):
    """'disk id:xHEX,id:xHEX' -> [(id, bytes)]"""
    body = field[5:].split(" other=")[0].strip()
    out = []
    for t in body.split(","):
        if t:
            i, h = t.split(":")
            out.append((int(i), bytes.fromhex(h[1:])))
    return out


def make_images(ctx, n, nops):
    """clean images (flush + idle) with the history that produced them; single-entry appends,
    no refused writes, so that journal records and accepted writes correspond one to one"""
    rnd = ctx.rnd
    cases, hist = [], []
    while len(cases) < n:
        recs = rnd.choice([2, 3, 4, 5, 8])
        cfg = "100000 1073741824 %d %d 1 %d" % (recs, rnd.choice([150, 400, 1 << 30]), rnd.choice(gen.CFG_RBUF))
        ops, st, sim = gen.gen_history(rnd, nops, p_reject=0.0, max_batch=1, reads=False, noop_purge=False)
        ops = [o for o in ops if o[0] in "VATPCUF"]
        mid = []
        if len(sim.entries) >= 3 and len(cases) % 3 == 2:
            # "left-over" images: a last purge is flushed, and the chunk files it made obsolete are
            # put back (a crash after the purge record became durable and before the unlinks)
            e = sim.entries[len(sim.entries) // 2]
            # (followed by votes that push further records, and chunks, behind the purge record)
            mid = ["F 1", "I", "K", "P %d %d" % (e[0], e[1])] + ["V %d 1" % (3000000000 + i) for i in range(rnd.randint(2, 2 * recs + 1))]
        cases.append("SEQ %s | %s" % (cfg, " ; ".join(gen.sync_ops(ops) + mid[:3] + gen.sync_ops(mid[3:]) + ["F 1", "I", "G", "R 0 100000", "K"])))
        hist.append(ops + mid[3:])
    impl = C.run_impl(cases, ctx.wd, "images")
    model = C.run_model(cases, ctx.wd, "images")
    core.compare(ctx, "bytes(b)-clean-images", cases, impl, model)
    imgs = []
    for c, ops, a in zip(cases, hist, impl):
        f = p_seq.fields(a)
        if not f[-1].startswith("disk "):
            continue
        disk = parse_disk(f[-1])
        allops0 = ["open"] + [o.strip() for o in c.split("|", 1)[1].split(";")]
        ks = [k for k, o in enumerate(allops0[:-1]) if o == "K" and k < len(f)]
        leftover = False
        if ks:
            before = parse_disk(f[ks[0]])
            gone = [(fid, d) for fid, d in before if disk and fid < disk[0][0]]
            if gone:
                disk = gone + disk
                leftover = True
                ctx.count("leftover_images")
        # journaling writes in order (a purge at an already purged index writes nothing)
        allrecs = []
        try:
            for fid, data in disk:
                rs = pydec.decode_all(data)
                allrecs.append((fid, rs))
        except Exception as e:
            ctx.fail("oracle", "clean image does not parse with the independent decoder: %r" % (e,), dict(kind="image", case=c))
            continue
        # results of the write calls, aligned with the operations of the case
        allops = ["open"] + [o.strip() for o in c.split("|", 1)[1].split(";")]
        results = [(o, f[k]) for k, o in enumerate(allops) if k < len(f) and o and o[0] in "VATPCU"]
        imgs.append(dict(case=c, ops=results, disk=disk, recs=allrecs, clean_state=f[-3], clean_read=f[-2], leftover=leftover))
    return imgs


def expected_after(ctx, img, keep_records_last):
    """SPEC case: the accepted journaling writes that are still represented when the newest
    chunk keeps only its first keep_records_last records (heads are not writes)."""
    pass


def img_case(cfg, disk, after=AFTER):
    return "IMG %s | %s | %s" % (cfg, " ".join("%d:%s" % (i, gen.hx(d)) for i, d in disk), after)


def run_C10(ctx):
    proof = core.proof_stage("C10")
    core.builds()
    rnd = ctx.rnd
    imgs = make_images(ctx, ctx.scale(24, 120), ctx.scale(14, 40))
    cases, meta = [], []
    for im in imgs:
        disk = im["disk"]
        fid, data = disk[-1]
        older = disk[:-1]
        recs = im["recs"][-1][1]
        bounds = [0] + [o + l for (_, o, l) in recs]
        for trunc in (1, 0):
            # truncation enabled is the default: a third of those configurations leave the field unset
            # (chunk limits of the reopening run vary too: a discarded tail may be longer than a whole chunk may be)
            cfg = "100000 1073741824 %d %d %s %d" % (rnd.choice([4, 4, 2, 100000]), rnd.choice([1 << 30, 1 << 30, 400, 150, 60]),
                                                   "-" if trunc == 1 and rnd.random() < 0.34 else trunc, rnd.choice(gen.CFG_RBUF))
            cuts = range(len(data) + 1) if (len(data) <= 700 or ctx.thorough()) else sorted(set(list(range(0, 60)) + bounds + [b - 1 for b in bounds if b] + [b + 1 for b in bounds] + [rnd.randrange(len(data)) for _ in range(200)]))
            for p in cuts:
                if p > len(data):
                    continue
                cases.append(img_case(cfg, older + [(fid, data[:p])]))
                k = sum(1 for b in bounds[1:] if b <= p)
                meta.append(dict(img=im, kind="cut", p=p, k=k, trunc=trunc, boundary=(p in bounds)))
                ctx.count("cut_boundary" if p in bounds else "cut_inside")
            zl = list(range(1, 41)) + [1024, 33 * 1024] if ctx.thorough() else [1, 2, 11, 12, 27, 28, 29, 40, 1024, 33 * 1024]
            for b in bounds:
                for z in zl:
                    cases.append(img_case(cfg, older + [(fid, data[:b] + bytes(z))]))
                    k = sum(1 for x in bounds[1:] if x <= b)
                    meta.append(dict(img=im, kind="zero", p=b, z=z, k=k, trunc=trunc, boundary=False))
                    ctx.count("zero_tail")
    impl = C.run_impl(cases, ctx.wd, "cuts")
    model = C.run_model(cases, ctx.wd, "cuts")
    core.compare(ctx, "recover-cuts-and-zero-tails", cases, impl, model)
    # extraction cross-check for the recovery path: open_dir on a sample of these images inside Coq
    import vmcheck
    nvm, vmf = vmcheck.run_vm_img(ctx, rnd.sample(cases, min(len(cases), 400)), n=ctx.scale(8, 64))
    for mm in vmf[:2]:
        ctx.fail("corr", "extraction cross-check: vm_compute inside Coq disagrees with the extracted model on open_dir", dict(check="vm", detail=mm))
    ctx.k_checks["extraction-vs-vm_compute-open_dir"] = (not vmf, nvm)
    # direct oracle, independent of the model
    bad = 0
    for c, m, a in zip(cases, meta, impl):
        f = p_seq.fields(a)
        im = m["img"]
        disk = im["disk"]
        fid, data = disk[-1]
        why = None
        complete = m["kind"] == "cut" and m["boundary"]
        if "panic" in f:
            why = "recovery or a later operation panicked"
        elif m["trunc"] == 1 or complete:
            if f[0] != "opened":
                why = "open failed (%s) although truncation is enabled / the file ends on a record boundary" % f[0]
            else:
                got = parse_disk(f[3])
                # the newest chunk is cut back to exactly its complete records
                bounds = [0] + [o + l for (_, o, l) in im["recs"][-1][1]]
                keep = bounds[m["k"]]
                exp_older = disk[:-1]
                if got[: len(exp_older)] != exp_older:
                    why = "an older chunk file was modified by the recovery"
                elif m["k"] >= 1:
                    if len(got) <= len(exp_older) or got[len(exp_older)] != (fid, data[:keep]):
                        why = "newest chunk not cut back to its %d complete records (%d bytes)" % (m["k"], keep)
                    elif (not complete) and (len(got) != len(disk) + 1 or got[-1][0] != fid + keep):
                        why = "no fresh chunk at the cut offset %d after a discarded tail" % (fid + keep)
                    elif complete and len(got) != len(disk):
                        why = "a complete file must be reopened, not followed by a new chunk"
                # writes continue and a second restart agrees: last two fields are stat and read after X
                if why is None and not (f[-2].startswith("stat") and f[-1].startswith("read")):
                    why = "writes or the second restart after recovery failed: " + " ; ".join(f[4:])[:200]
                # ... and they continue into a well-formed journal: every file still starts with a state snapshot
                if why is None and len(f) > 8 and f[8].startswith("disk "):
                    for fid2, d2 in parse_disk(f[8]):
                        try:
                            rs2 = pydec.decode_all(d2)
                        except Exception:
                            rs2 = None
                        if not rs2 or rs2[0][0][0] != "S":
                            why = "after recovery and one more write, chunk file %d does not start with a state snapshot" % fid2
                            break
        else:
            if not f[0].startswith("openerr"):
                why = "truncation disabled and the tail is incomplete/zero, but open answered " + f[0]
            elif parse_disk(f[1]) != disk[:-1] + [(fid, (data[: m["p"]] + bytes(m.get("z", 0))))]:
                why = "a refused open modified the directory"
        if why:
            bad += 1
            if bad <= 3:
                ctx.fail("oracle", "C10 oracle: " + why, dict(kind="image", case=c[:6000], mutation={k: v for k, v in m.items() if k != "img"}, observed=a[:1500]))
    ctx.k_checks["oracle-longest-prefix"] = (bad == 0, len(cases))
    # recovered state = reference log after exactly the represented writes (extracted Spec), on a sample
    # (only for images from which no chunk has been deleted: once a purge has removed chunk
    # files, a cut that loses the purge record is not a prefix of the history any more;
    # such cuts cannot arise from a crash, see C08, and are judged by the checks above)
    sample = [i for i in range(len(cases)) if meta[i]["trunc"] == 1 and meta[i]["kind"] == "cut"
              and meta[i]["img"]["disk"][0][0] == 0]
    sample = sample if ctx.thorough() else rnd.sample(sample, min(len(sample), 1500))
    spec_cases = []
    for i in sample:
        m = meta[i]
        im = m["img"]
        ws = journaling_ops(im)
        # records of the newest chunk that are discarded (its head is not a write)
        n_last = len(im["recs"][-1][1]) - 1
        keep = len(ws) - n_last + max(0, m["k"] - 1)
        if m["k"] == 0 and len(im["disk"]) == 1:
            # the only retained file lost its head snapshot: nothing is completely present
            keep = 0
            ctx.count("cut_inside_only_head")
        spec_cases.append("SPEC 0 0 0 0 1 0 | %s ; G ; R 0 100000" % " ; ".join(ws[:keep]))
    spec = C.run_model(spec_cases, ctx.wd, "spec") if spec_cases else []
    bad2 = 0
    for i, s in zip(sample, spec):
        f = p_seq.fields(impl[i])
        sf = p_seq.fields(s)
        if f[0] != "opened":
            continue
        if p_seq.state_of_stat(f[1]) != sf[-2] or f[2] != sf[-1]:
            bad2 += 1
            if bad2 <= 3:
                ctx.fail("oracle", "recovered state is not the reference log after exactly the completely present records",
                         dict(kind="image", case=cases[i][:6000], mutation={k: v for k, v in meta[i].items() if k != "img"},
                              observed=(p_seq.state_of_stat(f[1]) + " " + f[2])[:800], expected=(sf[-2] + " " + sf[-1])[:800]))
    ctx.k_checks["oracle-recovered-state-is-spec-prefix"] = (bad2 == 0, len(sample))
    # what was recovered stays readable under cache pressure: open with a zero-size cache,
    # read, drain everything evictable, read again (entries of the chunk that recovery
    # re-opens as the open chunk exist nowhere but in the cache until they are flushed).
    # Histories with a truncation are left out: a re-appended id below the eviction
    # boundary is finding F2 of C07.
    DRAIN = "G ; R 0 100000 ; E ; R 0 100000 ; D ; H"
    dcases, dmeta = [], []
    for im in imgs:
        if any(o.startswith("T") for o, _ in im["ops"]):
            continue
        disk = im["disk"]
        fid, data = disk[-1]
        bounds = [0] + [o + l for (_, o, l) in im["recs"][-1][1]]
        ps = sorted(set([0, 1, bounds[1] // 2, bounds[1] - 1, bounds[1]] + bounds + [b + 1 for b in bounds if b + 1 <= len(data)]
                        + [rnd.randrange(len(data) + 1) for _ in range(4)]))
        for p in ps:
            for cc in ("0 0", "1 10", "2 1073741824"):
                dcases.append(img_case("%s %d 1073741824 1 %d" % (cc, rnd.choice([2, 4, 100000]), rnd.choice(gen.CFG_RBUF)), disk[:-1] + [(fid, data[:p])], DRAIN))
                dmeta.append(dict(p=p, cache=cc))
    if dcases:
        di = C.run_impl(dcases, ctx.wd, "drain")
        dm = C.run_model(dcases, ctx.wd, "drain")
        core.compare(ctx, "recover-then-drain-cache", dcases, di, dm)
        bad3 = 0
        for c, m, a in zip(dcases, dmeta, di):
            f = p_seq.fields(a)
            why = None
            if "panic" in f:
                why = "panic after recovery"
            elif f[0] == "opened":
                if any(x.startswith("err") for x in f[2].split()[1:]):
                    why = "an entry of the recovered store is unreadable: " + f[2][:200]
                elif f[4] != f[2] or f[5] != f[2]:
                    why = "after draining the evictable part of the cache the recovered entries read differently: before `%s` after `%s` iteration `%s`" % (f[2][:300], f[4][:300], f[5][:300])
            if why:
                bad3 += 1
                if bad3 <= 3:
                    ctx.fail("oracle", "C10 oracle: " + why, dict(kind="image", case=c[:6000], mutation=m, observed=a[:1500]))
        ctx.k_checks["oracle-recovered-entries-survive-cache-drain"] = (bad3 == 0, len(dcases))
        ctx.count("drain_cases", len(dcases))
    # large records: the torn part alone can be far longer than any small constant (64 KiB,
    # a read buffer): a last entry of 70-300 KB cut inside its payload, its checksum, one byte short
    bcases = []
    for j in range(ctx.scale(3, 12)):
        size = rnd.choice([70000, 100000, 200000, 300000])
        recs = 100000                       # the large record stays in the newest chunk
        pre = ["A 1 %d x%02x" % (i, i) for i in range(rnd.randint(1, 3))]
        n0 = len(pre)
        big = "A 1 %d %s" % (n0, gen.hx(bytes((i * 31 + j) & 0xFF for i in range(size))))
        bcases.append("SEQ 100000 1073741824 %d 1073741824 1 %d | %s" % (recs, rnd.choice(gen.CFG_RBUF), " ; ".join(gen.sync_ops(pre + [big]) + ["F 1", "I", "K"])))
    bi = C.run_impl(bcases, ctx.wd, "bigimg")
    gcases, gmeta = [], []
    for c, a in zip(bcases, bi):
        f = p_seq.fields(a)
        if not f[-1].startswith("disk "):
            continue
        disk = parse_disk(f[-1])
        fid, data = disk[-1]
        rs = pydec.decode_all(data)
        (_, o, l) = rs[-1]
        if l < 60000:
            continue
        for cut in (o + 30, o + 66000, o + l // 2, o + l - 9, o + l - 1):
            for trunc in (1, 0):
                cfg = "100000 1073741824 4 1073741824 %d %d" % (trunc, rnd.choice(gen.CFG_RBUF))
                gcases.append(img_case(cfg, disk[:-1] + [(fid, data[:cut])], "G ; R 0 3 ; A ; V 4000000000 1 ; F 1 ; I"))
                gmeta.append(dict(cut=cut, trunc=trunc, record_at=o, record_len=l, complete_records=len(rs) - 1))
    if gcases:
        gi = C.run_impl(gcases, ctx.wd, "bigcut")
        gm = C.run_model(gcases, ctx.wd, "bigcut")
        core.compare(ctx, "recover-cuts-inside-large-records", gcases, gi, gm)
        bad5 = 0
        for c, m, a in zip(gcases, gmeta, gi):
            f = p_seq.fields(a)
            why = None
            if "panic" in f:
                why = "panic"
            elif m["trunc"] == 1 and f[0] != "opened":
                why = "open failed (%s) although truncation is enabled: a %d-byte record torn after %d bytes" % (f[0], m["record_len"], m["cut"] - m["record_at"])
            elif m["trunc"] == 1 and any(x.startswith("err") for x in f[3:6]):
                why = "writes after the recovery failed: " + " ; ".join(f[3:6])[:200]
            elif m["trunc"] == 0 and not f[0].startswith("openerr"):
                why = "truncation disabled and the tail is incomplete, but open answered " + f[0]
            if why:
                bad5 += 1
                if bad5 <= 3:
                    ctx.fail("oracle", "C10 oracle: " + why, dict(kind="image", case=c[:3000] + " ...", mutation=m, observed=a[:600]))
        ctx.k_checks["oracle-large-torn-record"] = (bad5 == 0, len(gcases))
        ctx.count("large_record_cuts", len(gcases))
    # the standalone Dump on the same damaged directories: every complete record is listed
    # with its file-local offset, a torn or zero tail gives exactly one error item, last in
    # its chunk, carrying the number of complete records before it
    ucases, umeta = [], []
    pick = list(range(len(cases)))
    rnd.shuffle(pick)
    for i in pick[: ctx.scale(600, 6000)]:
        parts = cases[i].split("|")
        ucases.append("DUMPDIR | " + parts[1].strip())
        umeta.append(meta[i])
    ui = C.run_impl(ucases, ctx.wd, "dumpdir")
    um = C.run_model(ucases, ctx.wd, "dumpdir")
    core.compare(ctx, "dump-of-damaged-directory", ucases, ui, um)
    bad4 = 0
    for c, m, a in zip(ucases, umeta, ui):
        im = m["img"]
        fid = im["disk"][-1][0]
        items = a.split()[1:]
        mine = [x for x in items if x.startswith("%d:" % fid)]
        errs = [x for x in mine if ":err:" in x]
        oks = [x for x in mine if ":err:" not in x]
        why = None
        if a == "panic" or not a.startswith("dump"):
            why = "Dump panicked or failed: " + a[:100]
        elif len(oks) != m["k"]:
            why = "Dump lists %d records of the newest chunk, %d are complete" % (len(oks), m["k"])
        elif m["kind"] == "cut" and m["boundary"] and errs:
            why = "Dump reports an error in a file that ends on a record boundary: " + errs[0]
        elif not (m["kind"] == "cut" and m["boundary"]) and (len(errs) != 1 or mine[-1] != errs[0] or not errs[0].startswith("%d:%d:err:" % (fid, m["k"]))):
            why = "a torn or zero tail must give exactly one error item, last, numbered %d: %s" % (m["k"], mine[-2:])
        elif [x for x in items if ":err:" in x and not x.startswith("%d:" % fid)]:
            why = "Dump reports an error in an undamaged older chunk"
        if why:
            bad4 += 1
            if bad4 <= 3:
                ctx.fail("oracle", "C10 oracle: " + why, dict(kind="image", case=c[:6000], mutation={k: v for k, v in m.items() if k != "img"}, observed=a[:1500]))
    ctx.k_checks["oracle-dump-of-damaged-directory"] = (bad4 == 0, len(ucases))
    ctx.cov["evaluations"] = len(cases) + len(dcases) + len(ucases)
    ctx.cov["distinct_nontrivial"] = len(set(cases))
    ctx.cov["exhaustive_per_image"] = True
    ctx.cov["rule"] = "for each generated clean image: every cut position 0..len of the newest chunk (all positions when the file has <= 700 bytes, else all boundaries +-1, the first 60 bytes and 200 random ones), zero tails at every record boundary with the listed lengths, both values of truncate_incomplete_record; each followed by writes, flush and a second restart; every case is non-trivial (a damaged image), distinct by case line"
    ctx.cov["samples"] = [cases[0][:800], cases[len(cases) // 2][:800]]
    ctx.cov["images"] = len(imgs)
    return core.finish(ctx, proof)


def journaling_ops(im):
    """the operations of the history that wrote a record, in order (the generator emits
    no purge at an already purged index here, so every call answered Ok wrote one record)"""
    return [o for o, res in im["ops"] if res.startswith("ok ")]


def classify_flip(im, fi, pos, altered):
    """position of a flip: which record, which field class; does the altered record hit EOF?"""
    fid, data = im["disk"][fi]
    for (r, o, l) in im["recs"][fi][1]:
        if o <= pos < o + l:
            try:
                pydec.decode(altered, o)
                res = "ok"
            except EOFError:
                res = "eof"
            except pydec.Bad:
                res = "bad"
            return r[0], pos - o, l, res
    return None, None, None, None


def read_corruption(ctx):
    """a byte altered underneath an OPEN store: reading the affected entry (evicted from the
    cache, stored in a closed chunk) must fail, never return other content, never panic"""
    rnd = ctx.rnd
    n = ctx.scale(40, 300)
    prefixes = []
    for _ in range(n):
        recs = rnd.choice([2, 3, 4])
        cfg = "0 0 %d %d 1 %d" % (recs, rnd.choice([150, 400, 1 << 30]), rnd.choice(gen.CFG_RBUF))
        ops, st, sim = gen.gen_history(rnd, rnd.randint(6, 20), p_reject=0.0, max_batch=1, reads=False, noop_purge=False)
        ops = [o for o in ops if o[0] in "VATPCUF"]
        prefixes.append("SEQ %s | %s" % (cfg, " ; ".join(gen.sync_ops(ops) + ["F 1", "I", "E"])))
    first = C.run_impl([p + " ; G ; K" for p in prefixes], ctx.wd, "rc1")
    cases, meta = [], []
    for pre, a in zip(prefixes, first):
        f = p_seq.fields(a)
        if not f[-1].startswith("disk "):
            continue
        disk = parse_disk(f[-1])
        for fid, data in disk[:-1]:               # closed chunks only
            try:
                rs = pydec.decode_all(data)
            except Exception:
                continue
            apps = [(r, o, l) for (r, o, l) in rs if r[0] == "A"]
            for (r, o, l) in apps[:3]:
                for pos in sorted(set([o + 4 + rnd.randrange(16), o + 20 + rnd.randrange(4), o + l - 1 - rnd.randrange(8)] +
                                      ([o + 24 + rnd.randrange(len(r[2]))] if len(r[2]) else []))):
                    v = data[pos] ^ (1 << rnd.randrange(8))
                    cases.append(pre + " ; M %d %d %d ; R 0 100000 ; D" % (fid, pos, v))
                    meta.append(dict(id=r[1], file=fid, pos=pos, val=v, field=("id" if pos < o + 20 else "len" if pos < o + 24 else "payload" if pos < o + l - 8 else "checksum")))
                    ctx.count("open_store_flip_" + meta[-1]["field"])
    if not cases:
        return
    impl = C.run_impl(cases, ctx.wd, "rc2")
    model = C.run_model(cases, ctx.wd, "rc2")
    core.compare(ctx, "read-after-corruption-under-open-store", cases, impl, model)
    bad = 0
    for c, m, a in zip(cases, meta, impl):
        f = p_seq.fields(a)
        why = None
        if "panic" in f:
            why = "a read panicked"
        else:
            # what was written for that id (the last append of it in the history)
            want = None
            for o in c.split("|", 1)[1].split(";"):
                t = o.split()
                if t and t[0] == "A" and (int(t[1]), int(t[2])) == tuple(m["id"]):
                    want = t[3]
            for fld in (f[-2], f[-1]):
                items = fld.split()[1:]
                live = [x for x in items if x.startswith("ok:%d:%d:" % tuple(m["id"]))]
                # served from the cache it is what was written; read from the altered file it must be an error
                if live and want is not None and live[0].split(":", 3)[3] != want:
                    why = "the entry %s whose record was altered on disk (%s byte) was returned with other content: %s" % (m["id"], m["field"], live[0][:80])
        if why:
            bad += 1
            if bad <= 3:
                ctx.fail("oracle", "C09 oracle: " + why, dict(kind="seq", case=c[:6000], mutation=m, observed=" ; ".join(f[-2:])[:600]))
    ctx.k_checks["oracle-read-reports-corruption"] = (bad == 0, len(cases))
    ctx.cov["read_corruption_cases"] = len(cases)


def purged_tail_disks(ctx):
    """directories in which some chunk file ENDS with every entry written so far purged (the purge
    was issued while that chunk was the open one, so the file stays), followed by chunks with
    live entries: all alignments of the purge record within its chunk"""
    rnd = ctx.rnd
    cases = []
    for recs in (2, 3, 4) + ((5, 6) if ctx.thorough() else ()):
        for j in range(recs):
            n0 = rnd.randint(1, 4)
            ops = ["A 1 %d x%02x" % (i, 0x41 + i) for i in range(n0)]
            ops.append(rnd.choice(["P 1 %d" % (n0 - 1), "P 2 %d" % (n0 + 1)]))
            nxt = n0 if ops[-1].startswith("P 1") else n0 + 2
            ops += ["V %d 1" % (10 + i) for i in range(j)]
            ops += ["A 2 %d x%02x" % (nxt + i, 0x61 + i) for i in range(2 * recs + 1)]
            cases.append("SEQ 100000 1073741824 %d 1073741824 1 64 | %s" % (recs, " ; ".join(gen.sync_ops(ops) + ["F 1", "I", "K"])))
    impl = C.run_impl(cases, ctx.wd, "purgedtail")
    model = C.run_model(cases, ctx.wd, "purgedtail")
    core.compare(ctx, "bytes(b)-purged-tail-images", cases, impl, model)
    out = []
    for a in impl:
        f = p_seq.fields(a)
        if f[-1].startswith("disk "):
            out.append(parse_disk(f[-1]))
    return out


def missing_middle(ctx, disks):
    """every middle chunk file of every directory removed: open must refuse and touch nothing
    but (possibly) the newest file"""
    rnd = ctx.rnd
    cases, meta = [], []
    for disk in disks:
        for fi in range(1, len(disk) - 1):
            cfg = "100000 1073741824 4 1073741824 %d %d" % (rnd.choice([1, 1, 0]), rnd.choice(gen.CFG_RBUF))
            d2 = disk[:fi] + disk[fi + 1:]
            cases.append(img_case(cfg, d2, "G ; R 0 100000"))
            meta.append(d2)
    if not cases:
        return
    impl = C.run_impl(cases, ctx.wd, "missingmid")
    model = C.run_model(cases, ctx.wd, "missingmid")
    core.compare(ctx, "recover-missing-middle-chunk", cases, impl, model)
    bad = 0
    for c, d2, a in zip(cases, meta, impl):
        f = p_seq.fields(a)
        why = None
        if not f[0].startswith("openerr"):
            why = "a middle chunk file is missing but open answered " + f[0]
        elif parse_disk(f[1])[:-1] != d2[:-1]:
            why = "a refused open modified a chunk file other than the newest"
        if why:
            bad += 1
            if bad <= 3:
                ctx.fail("oracle", "C09 oracle: " + why, dict(kind="image", case=c[:8000], mutation=dict(kind="missing"), observed=a[:600]))
    ctx.count("middle_chunk_removed_all_images", len(cases))
    ctx.k_checks["oracle-missing-middle-chunk-refused"] = (bad == 0, len(cases))


def run_C09(ctx):
    proof = core.proof_stage("C09")
    core.builds()
    rnd = ctx.rnd
    imgs = [im for im in make_images(ctx, ctx.scale(12, 80), ctx.scale(12, 30)) if len(im["disk"]) >= 2]
    missing_middle(ctx, [im["disk"] for im in imgs] + purged_tail_disks(ctx))
    imgs.sort(key=lambda im: 0 if im.get("leftover") else 1)        # left-over images first: at least one is swept
    imgs = imgs[: ctx.scale(3, 24)]
    ncases_total, distinct, samples = 0, set(), []
    sweep_ok, bad = True, 0
    for ii, im in enumerate(imgs):
        # one image at a time: the sweep of one image is run and judged, then dropped
        cases, meta = [], []
        disk = im["disk"]
        # a third of the images are opened with truncation of incomplete records DISABLED: there
        # nothing may be cut away, whatever the alteration looks like
        trunc_on = (ii % 3 != 1)
        cfg = "100000 1073741824 4 1073741824 %d %d" % (1 if trunc_on else 0, rnd.choice(gen.CFG_RBUF))
        ctx.count("sweep_images_truncation_" + ("on" if trunc_on else "off"))
        for fi, (fid, data) in enumerate(disk):
            # all 255 replacement values: header and checksum bytes of every record of the first
            # image (thorough tier); elsewhere the 8 single-bit flips, 0, 255 and in the thorough
            # tier 12 more random values
            hot = set()
            if ctx.thorough() and ii == 0:
                for (_, ro, rl) in im["recs"][fi][1]:
                    hot |= set(range(ro, min(ro + 40, ro + rl))) | set(range(max(ro, ro + rl - 8), ro + rl))
            # quick tier: cap the work per file; all positions of small files, a spread sample of big ones
            allpos = range(len(data))
            lim = ctx.scale(400, 1200)
            if len(data) > lim:
                # every case carries the whole directory: the work per file is capped in both tiers
                keep = set(range(0, lim // 4)) | set(range(len(data) - lim // 8, len(data))) | set(rnd.sample(range(len(data)), lim // 2))
                # always the first bytes of every record (tag, ids, length prefixes)
                o = 0
                for (_, ro, rl) in im["recs"][fi][1]:
                    keep |= set(range(ro, min(ro + 28, ro + rl)))
                allpos = sorted(p for p in keep if p < len(data))
            # memory budget: every case is the whole directory in hex
            case_len = 2 * sum(len(d) for _, d in disk) + 200
            budget = max(2000, int(ctx.scale(60e6, 400e6) / case_len / max(1, len(disk))))
            per_pos = 22 if ctx.thorough() else 10
            if len(allpos) * per_pos > budget:
                allpos = sorted(rnd.sample(list(allpos), max(50, budget // per_pos)))
                ctx.count("sweep_positions_subsampled")
            for pos in allpos:
                vals = range(256) if pos in hot else ([data[pos] ^ (1 << b) for b in range(8)] + [0, 255] + ([rnd.randrange(256) for _ in range(12)] if ctx.thorough() else []))
                for v in vals:
                    if v == data[pos]:
                        continue
                    alt = data[:pos] + bytes([v]) + data[pos + 1:]
                    d2 = disk[:fi] + [(fid, alt)] + disk[fi + 1:]
                    cases.append(img_case(cfg, d2, "G ; R 0 100000 ; D"))
                    meta.append(dict(img=im, kind="flip", file=fi, pos=pos, val=v, newest=(fi == len(disk) - 1), alt=alt))
        for fi in range(1, len(disk) - 1):
            cases.append(img_case(cfg, disk[:fi] + disk[fi + 1:], "G ; R 0 100000"))
            meta.append(dict(img=im, kind="missing", file=fi))
            ctx.count("middle_chunk_removed")
            # the same with the newest file record-less or torn inside its head (what a crash
            # during chunk creation leaves): the hole must still be reported
            lid, ldata = disk[-1]
            for cut in (0, 1, 7, len(pydec.decode_all(ldata)[0:1]) and pydec.decode_all(ldata)[0][2] - 1):
                d3 = disk[:fi] + disk[fi + 1:-1] + [(lid, ldata[:cut])]
                cases.append(img_case(cfg, d3, "G ; R 0 100000"))
                meta.append(dict(img=im, kind="missing", file=fi, newest_cut=cut, disk=d3))
                ctx.count("middle_chunk_removed_and_newest_torn")
        impl = C.run_impl(cases, ctx.wd, "flips")
        model = C.run_model(cases, ctx.wd, "flips")
        if core.compare(ctx, "recover-single-byte-sweep", cases, impl, model):
            sweep_ok = False
        for c, m, a in zip(cases, meta, impl):
            f = p_seq.fields(a)
            im = m["img"]
            why, cls = None, None
            if m["kind"] == "missing":
                d2 = m.get("disk") or (im["disk"][: m["file"]] + im["disk"][m["file"] + 1:])
                if "newest_cut" in m and m["file"] == len(im["disk"]) - 2:
                    # the chunk right before the torn newest file is gone: what remains is an intact
                    # older journal plus a record-less newest file whose name no longer fits
                    pass
                if not f[0].startswith("openerr"):
                    why = "a middle chunk file is missing but open answered " + f[0]
                elif parse_disk(f[1])[:-1] != d2[:-1]:
                    why = "a refused open modified a chunk file other than the newest"
            else:
                rk, off, rl, res = classify_flip(im, m["file"], m["pos"], m["alt"])
                ctx.count("flip_%s_%s" % (rk, "newest" if m["newest"] else "older"))
                d2 = im["disk"][: m["file"]] + [(im["disk"][m["file"]][0], m["alt"])] + im["disk"][m["file"] + 1:]
                if "panic" in f:
                    why = "open panicked"
                elif f[0] == "opened":
                    same = p_seq.state_of_stat(f[1]) == p_seq.state_of_stat(im["clean_state"]) and f[2] == im["clean_read"]
                    why = "an altered byte inside a complete record was absorbed: open succeeded" + (" with the original content" if same else " with different state or entries")
                    if res == "eof" and m["newest"] and trunc_on:
                        cls = "F5-length-flip-newest-chunk-taken-for-torn-tail"
                else:
                    after = parse_disk(f[1])
                    nn = len(d2) - 1 if trunc_on else len(d2)
                    if after[:nn] != d2[:nn]:
                        why = "the refused open modified a chunk file other than the newest" if trunc_on else "the refused open modified a chunk file although truncation is disabled"
                        if res == "eof" and not m["newest"] and trunc_on:
                            cls = "F6-refused-open-truncates-older-chunk"
            if why:
                bad += 1
                rp = dict(kind="image", case=c[:8000], mutation={k: v for k, v in m.items() if k not in ("img", "alt", "disk")}, observed=a[:600])
                if cls:
                    rp["class"] = cls
                if bad <= 2000:
                    ctx.fail("oracle", "C09 oracle: " + why, rp)

        ncases_total += len(cases)
        distinct |= set(hash(c) for c in cases)
        if not samples:
            samples = [cases[0][:800], cases[-1][:800]]
    ctx.k_checks["recover-single-byte-sweep"] = (sweep_ok, ncases_total)
    read_corruption(ctx)
    ctx.k_checks["oracle-corruption-reported"] = (not any(f["kind"] == "oracle" and "class" not in f["replay"] for f in ctx.failures), ncases_total)
    # collapse known-class failures to one representative each (they are findings, not alarms)
    keep, seen = [], set()
    for fl in ctx.failures:
        cl = fl["replay"].get("class")
        if cl:
            ctx.count("known_" + cl)
            if cl in seen:
                continue
            seen.add(cl)
        keep.append(fl)
    ctx.failures = keep
    ctx.cov["evaluations"] = ncases_total
    ctx.cov["distinct_nontrivial"] = len(distinct)
    ctx.cov["rule"] = "for each generated multi-chunk clean image: every byte position of every file x replacement values (the 8 single-bit flips, 0x00, 0xff; thorough tier: 12 more random values everywhere and all 255 values on the first 40 and last 8 bytes of every record of the first image; quick tier: a spread sample of positions in files above 400 bytes), swept image by image, and every middle chunk removed; every case is non-trivial (a damaged image)"
    ctx.cov["samples"] = [cases[0][:800], cases[-1][:800]]
    ctx.cov["images"] = len(imgs)
    return core.finish(ctx, proof)
