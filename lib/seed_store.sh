#!/bin/sh
# store a delivered+verified seeded change (/tmp/mut/<id>/out, /tmp/mut/<id>.verify.txt) under /verif/seeded/<id>
# and run the given checks against it.  usage: seed_store.sh <id> <check>...
id="$1"; shift
mkdir -p /verif/seeded/$id
cp /tmp/mut/$id/out/patch.diff /verif/seeded/$id/patch.diff
cp $(ls /tmp/mut/$id/out/*.rs | head -1) /verif/seeded/$id/demo_test.rs
cp /tmp/mut/$id/out/meta.txt /verif/seeded/$id/agent_meta.txt 2>/dev/null
cp /tmp/mut/$id.verify.txt /verif/seeded/$id/verify.txt
/verif/lib/mutant.sh /verif/seeded/$id/patch.diff "$@" > /verif/seeded/$id/checks.txt 2>&1
grep -E "^==|^VIOLATION|^OK" /verif/seeded/$id/checks.txt | cut -c1-150
