"""K-seq based checks: C01 (sequential semantics), C02 (clean restart), C06 (rejected
writes), C11 (journal layout), C15 (cache accounting), C16 (no panics)."""
import common as C, core, gen, pydec

core.register("C01", "Props.C01", "theories/Props/C01.vo",
              ["C01_refines_spec", "C01_results_agree", "C01_chunking_invisible"])
core.register("C06", "Props.C06", "theories/Props/C06.vo",
              ["C06_refused_record_no_trace", "C06_refused_write_no_trace", "C06_refused_append_prefix",
               "C06_refused_iff_spec_refuses"])
core.register("C15", "Props.C15", "theories/Props/C15.vo",
              ["C15_counts_exact", "C15_stat_exact", "C15_over_limit_pinned", "C15_drain",
               "C15_counts_exact_restarts", "C15_stat_exact_restarts", "C15_restart_always_opens"])
core.register("C16", "Props.C16", "theories/Props/C16.vo",
              ["C16_no_panic", "C16_write_no_panic", "C16_read_inverted_empty", "C16_index_limit_refused",
               "C16_next_index_in_range_partial", "C16_read_record_no_underflow", "C16_read_record_panic_iff",
               "C16_run_reads_no_panic", "C16_read_items_no_panic_L2"])

FINAL = ["F 1", "I", "G", "R 0 100000", "D", "Z", "K"]


def spec_lines(cases, wd):
    return C.run_model(["SPEC" + c[3:] for c in cases], wd, "spec")


def fields(line):
    return line.split(" ; ")


def state_of_stat(f):
    # "... state={v l c p u}"
    i = f.rfind("state={")
    return f[i:]


def oracle_c01(ctx, case, impl_line, spec_line, strict_rejects=True):
    """The property itself on the implementation: every read and every reported state
    equals the reference log's; accepted/refused as the reference log decides."""
    ops = ["open"] + [o.strip() for o in case.split("|", 1)[1].split(";")]
    fi, fs = fields(impl_line), fields(spec_line)
    for k, (a, b) in enumerate(zip(fi, fs)):
        op = ops[k] if k < len(ops) else "?"
        if b == "-" or b == "opened":
            continue
        if b == "unsupported":
            return None
        if b == "illegal":
            ctx.count("oracle_stopped_at_illegal_purge")
            return None          # not a Raft-legal history from here on: the property does not speak
        if b == "acc":
            if not a.startswith("ok "):
                return k, op, "the reference log accepts this write, the implementation answered: " + a[:200]
        elif b == "rej":
            if not a.startswith("err "):
                return k, op, "the reference log refuses this write, the implementation answered: " + a[:200]
        elif b.startswith("read"):
            if a != b:
                return k, op, "read differs: implementation %s / reference %s" % (a[:300], b[:300])
        elif b.startswith("state={"):
            if state_of_stat(a) != b:
                return k, op, "state differs: implementation %s / reference %s" % (state_of_stat(a)[:300], b[:300])
    if len(fi) < len(fs):
        return len(fi) - 1, ops[len(fi) - 1] if len(fi) - 1 < len(ops) else "?", "run ended early with: " + fi[-1][:200]
    return None


def gen_cases(ctx, n, nops_lo, nops_hi, big_cache=True, small_cache=False, restarts=0, p_reject=0.0, finals=FINAL, partial_batches=True, term_jump_purges=False):
    """K-seq runs in lock step with the worker (wait_worker_idle after every call), which is
    deterministic only if the worker cannot run in the middle of a call: a multi-entry
    append that rotates a chunk hands requests to the worker while it is still appending.
    Multi-entry appends are therefore generated only under configurations that cannot
    rotate; under rotating configurations appends are single-entry (multi-entry appends
    across rotations are exercised by the gated K-trace checks)."""
    rnd = ctx.rnd
    cases = []
    for _ in range(n):
        nops = rnd.randint(nops_lo, nops_hi)
        cfg = gen.rand_cfg(rnd, big_cache=big_cache, small_cache=small_cache)
        nr = rnd.randint(1, restarts) if restarts else 0
        cfgs = [gen.rand_cfg(rnd, big_cache=big_cache, small_cache=small_cache) for _ in range(nr)]
        rot = any(gen.cfg_rotates(c) for c in [cfg] + cfgs)
        ops, st, sim = gen.gen_history(rnd, nops, p_reject=p_reject, max_batch=1 if rot else 4, partial_batches=partial_batches, index_limit_rejects=True, term_jump_purges=term_jump_purges)
        for k, v in st.items():
            ctx.count("ops_" + k, v)
        # restarts with a freshly drawn configuration: flush first (clean restart)
        for cfg2 in cfgs:
            pos = rnd.randint(0, len(ops))
            ops[pos:pos] = ["F 1", "I", "X " + cfg2, "G", "R 0 100000"]
            ctx.count("restarts")
        ctx.count("cfg_recs_" + cfg.split()[2])
        ctx.count("cfg_multi_entry_appends" if not rot else "cfg_single_entry_appends")
        line = "SEQ %s | %s" % (cfg, " ; ".join(gen.sync_ops(ops) + finals))
        cases.append(line)
    return cases


def nontrivial(cases, impl):
    """distinct cases that contain at least one rotation (a closed chunk in some stat)
    or one refused/boundary operation"""
    s = set()
    for c, r in zip(cases, impl):
        if "closed=[]" not in r.replace("closed=[] ", "closed=[] ", 1) or " err " in r or "closed=[" in r and "closed=[]" != r[r.find("closed=["):r.find("closed=[") + 9]:
            s.add(c)
    return len(s)



def seq_run(ctx, cases, name="seq", profile="debug"):
    impl = C.run_impl(cases, ctx.wd, name, profile=profile)
    model = C.run_model(cases, ctx.wd, name)
    core.compare(ctx, name + ("-" + profile if profile != "debug" else ""), cases, impl, model)
    return impl, model


def spec_oracle(ctx, cases, impl, label):
    spec = spec_lines(cases, ctx.wd)
    bad = 0
    for c, a, s in zip(cases, impl, spec):
        r = oracle_c01(ctx, c, a, s)
        if r is not None:
            bad += 1
            if bad <= 3:
                ctx.fail("oracle", label + ": " + r[2], dict(kind="seq", case=c, at_op=r[0], op=r[1], detail=r[2]))
    ctx.k_checks["oracle-reference-log"] = (bad == 0, len(cases))
    return bad


def cov(ctx, cases, impl, rule):
    ctx.cov["evaluations"] = ctx.cov.get("evaluations", 0) + len(cases)
    ctx.cov["distinct_nontrivial"] = ctx.cov.get("distinct_nontrivial", 0) + nontrivial(cases, impl)
    ctx.cov["rule"] = rule
    ctx.cov["samples"] = ctx.cov.get("samples", []) + [cases[0][:1200], cases[len(cases) // 2][:1200]]


def corpus(prop):
    """minimized regression cases, run first"""
    import os
    p = os.path.join(C.VERIF, "corpus", prop + ".cases")
    if os.path.exists(p):
        return [l.strip() for l in open(p) if l.strip() and not l.startswith("#")]
    return []


def run_C01(ctx):
    proof = core.proof_stage("C01")
    core.builds()
    n = ctx.scale(500, 6000)
    # mostly legal histories; a few refused calls (a lower or incomparable vote, an id not above
    # last, a gap, a commit backwards, a truncate at a missing index) check that what is
    # accepted and what is refused is what the reference log decides
    cases = corpus("C01") + gen_cases(ctx, n, 5, ctx.scale(60, 300), big_cache=True, p_reject=0.03)
    impl, model = seq_run(ctx, cases)
    spec_oracle(ctx, cases, impl, "C01 oracle")
    # extraction cross-check: the kernel's VM must agree with the extracted OCaml model
    import vmcheck
    nvm, vmf = vmcheck.run_vm(ctx, cases, n=ctx.scale(8, 96))
    for m in vmf[:2]:
        ctx.fail("corr", "extraction cross-check: vm_compute inside Coq disagrees with the extracted model", dict(check="vm", detail=m))
    ctx.k_checks["extraction-vs-vm_compute"] = (not vmf, nvm)
    cov(ctx, cases, impl, "seeded structured histories, legal but for 3% refused calls (truncate-then-append at a lower term, purge beyond last, first append at a non-zero index, empty and multi-KB payloads) x random chunk/read-buffer settings incl. 0 and 1, big cache; distinct by case line; non-trivial = contains a chunk rotation or a refused/boundary operation")
    return core.finish(ctx, proof)


def run_C06(ctx):
    proof = core.proof_stage("C06")
    core.builds()
    n = ctx.scale(500, 5000)
    fin = ["F 1", "I", "G", "H", "R 0 100000", "D", "K", "X 100000 1073741824 5 1073741824 1 64", "G", "R 0 100000"]
    # half under large caches, half under tiny ones (a refused call must not evict anything either)
    cases = corpus("C06") + gen_cases(ctx, n - n // 2, 5, ctx.scale(50, 200), big_cache=True, p_reject=0.2, restarts=1, finals=fin) \
        + gen_cases(ctx, n // 2, 5, ctx.scale(50, 200), big_cache=False, small_cache=True, p_reject=0.2, restarts=1, finals=fin)
    # a batch refused at an entry that is not its last one: what follows the refused entry would be
    # acceptable on its own (a re-delivered entry in front of new ones, an out-of-order batch)
    rnd = ctx.rnd
    for j in range(ctx.scale(12, 60)):
        cfg = "%s 1048576 1073741824 1 64" % rnd.choice(["100000 1073741824", "100000 1073741824", "2 64"])
        n0 = rnd.randint(1, 5)
        ops = ["A " + " ".join("1 %d x%02x" % (i, 0x61 + i) for i in range(n0))]
        kind = j % 3
        if kind == 0:      # the last stored entry again, then new ones
            b = ["1 %d x%02x" % (n0 - 1, 0x61 + n0 - 1)] + ["1 %d x7a" % (n0 + i) for i in range(rnd.randint(1, 2))]
        elif kind == 1:    # out of order: a gap first, then the entry that was due
            b = ["1 %d x7a" % (n0 + 1), "1 %d x7b" % n0]
        else:              # an accepted prefix, a refused entry, an acceptable tail
            b = ["1 %d x7a" % n0, "1 %d x7b" % (n0 + rnd.choice([0, 2])), "1 %d x7c" % (n0 + 1)]
        ops += ["A " + " ".join(b), "R 0 100", "A 1 %d x7d" % (n0 + (1 if kind == 2 else 0)), "R 0 100"]
        cases.append("SEQ %s | %s" % (cfg, " ; ".join(gen.sync_ops(ops) + fin)))
        ctx.count("refused_in_mid_batch_cases")
    # a stat + resident listing around every operation, so that a refused call can be compared before/after
    cases2 = []
    for c in cases:
        head, ops = c.split("|", 1)
        out = []
        ol = [x.strip() for x in ops.split(";") if x.strip()]
        for j, o in enumerate(ol):
            if o[0] in "VATPC" and j + 1 < len(ol) and ol[j + 1] == "I":
                out += ["G", "H", o]          # observed again after the I that follows
            elif o == "I" and j > 0 and ol[j - 1][0] in "VATPC":
                out += ["I", "G", "H"]
            else:
                out.append(o)
        cases2.append(head + "| " + " ; ".join(out))
    cases = cases2
    impl, model = seq_run(ctx, cases)
    # reads are compared with the reference log only under large caches (under cache pressure a
    # read can fail for the reason recorded as finding F2 of C07, which is not C06's subject)
    big = [i for i, c in enumerate(cases) if gen.cfg_ints(c.split("|")[0].split()[1:])[0] >= 100000 and gen.cfg_ints(c.split("|")[0].split()[1:])[1] >= (1 << 30)]
    spec_oracle(ctx, [cases[i] for i in big], [impl[i] for i in big], "C06 oracle")
    # direct: a call answered with err leaves stat (state, chunks, cache counters, boundary) and the resident set unchanged
    bad = 0
    nrej = 0
    for c, a in zip(cases, impl):
        f = fields(a)
        ops = ["open"] + [o.strip() for o in c.split("|", 1)[1].split(";")]
        for k in range(2, len(f) - 3):
            if f[k].startswith("err ") and ops[k][0] in "VATPC" and f[k - 1].startswith("resident") and ops[k + 1] == "I":
                nrej += 1
                multi = ops[k][0] == "A" and len(ops[k].split()) > 4
                if multi:
                    continue        # a multi-entry append may have accepted a prefix
                if f[k - 2] != f[k + 2] or f[k - 1] != f[k + 3]:
                    bad += 1
                    if bad <= 3:
                        ctx.fail("oracle", "a refused write changed the reported state, chunk bookkeeping or cache",
                                 dict(kind="seq", case=c, at_op=k, op=ops[k], before=f[k - 2][:600], after=f[k + 2][:600]))
    ctx.count("refused_calls_checked", nrej)
    ctx.k_checks["oracle-refused-call-changes-nothing"] = (bad == 0, nrej)
    cov(ctx, cases, impl, "histories with 20% refused operations (vote/commit backwards, id <= last, gap, truncate at a missing index) at arbitrary points, stat+resident set before and after every write, then flush, restart under another configuration and full read; non-trivial = contains a refused operation or a rotation")
    return core.finish(ctx, proof)


def run_C15(ctx):
    proof = core.proof_stage("C15")
    core.builds()
    n = ctx.scale(400, 4000)
    base = gen_cases(ctx, n, 5, ctx.scale(50, 200), big_cache=False, small_cache=True, p_reject=0.1, restarts=2,
                     finals=["F 1", "I", "G", "H", "E", "G", "H"], term_jump_purges=True)
    # bulk: far more entries than the limit become evictable in ONE step (a long chunk is
    # closed and synced), then one more insert has to bring the cache back under its limit
    rnd = ctx.rnd
    bulk = []
    for j in range(ctx.scale(6, 40)):
        nrec = rnd.choice([90, 140, 200, 330])
        cfg = "%d %d %d 1073741824 1 64" % (rnd.choice([0, 1, 4, 16]), rnd.choice([0, 64, 1 << 30]), nrec + 1)
        ops = []
        for i in range(nrec - 1):
            ops.append("A 1 %d %s" % (i, gen.hx(bytes([i & 0xFF]) * rnd.choice([0, 1, 3]))))
            if rnd.random() < 0.05:
                ops.append("F 1")
        ops += ["F 1", "A 1 %d x61" % (nrec - 1), "F 1", "A 1 %d x62" % nrec, "A 1 %d x63" % (nrec + 1), "F 1"]
        bulk.append("SEQ %s | %s" % (cfg, " ; ".join(gen.sync_ops(ops) + ["G", "H", "E", "G", "H"])))
        ctx.count("bulk_histories")
    cases = []
    for c in corpus("C15") + base + bulk:
        head, ops = c.split("|", 1)
        out = []
        for o in [x.strip() for x in ops.split(";") if x.strip()]:
            out.append(o)
            if o in ("I", "E"):           # the worker is idle here: observations are deterministic
                out += ["G", "H"]
            if o == "I" and ctx.rnd.random() < 0.15:
                out += ["E", "G", "H"]
        cases.append(head + "| " + " ; ".join(out))
    impl, model = seq_run(ctx, cases)
    bad = 0
    nchk = 0
    over = 0
    for c, a in zip(cases, impl):
        f = fields(a)
        ops = ["open"] + [o.strip() for o in c.split("|", 1)[1].split(";")]
        cfg = c.split("|")[0].split()[1:]
        max_items, cap = gen.cfg_ints(cfg)[0:2]
        boundary_before = None
        for k in range(1, len(f) - 1):
            if f[k].startswith("stat ") and not f[k + 1].startswith("resident"):
                ev0 = f[k][f[k].index("cache=") + 6:].split(" ")[0].split(",")[0]
                boundary_before = None if ev0 == "-" else tuple(int(x) for x in ev0.split(":"))
            if f[k].startswith("stat ") and f[k + 1].startswith("resident"):
                nchk += 1
                cache = f[k][f[k].index("cache=") + 6:].split(" ")[0].split(",")
                ev, items, mx_, size, cap_ = cache
                max_items, cap = int(mx_), int(cap_)       # limits in force (they change at a restart)
                res = [x for x in f[k + 1][9:].split(",") if x]
                cnt = len(res)
                tot = sum(int(x.split(":")[2]) for x in res)
                why = None
                if int(items) != cnt or int(size) != tot:
                    why = "stat reports %s items / %s bytes, resident are %d items / %d bytes" % (items, size, cnt, tot)
                # over-limit => everything pinned (only checked right after an accepted append)
                prev_op = ops[k - 1] if k - 1 < len(ops) else ""
                if prev_op == "I" and k >= 2 and ops[k - 2].startswith("A ") and f[k - 2].startswith("ok "):
                    prev_op = ops[k - 2]
                if why is None and prev_op.startswith("A ") and (cnt > max_items or tot > cap):
                    over += 1
                    b = boundary_before
                    for x in res:
                        t, i, _ = x.split(":")
                        if b is not None and (int(t), int(i)) <= b:
                            why = "cache over its limit after an append but resident %s:%s is at or below the boundary %s in force at the append" % (t, i, b)
                # drained => nothing at or below the boundary
                if why is None and prev_op == "E":
                    b = None if ev == "-" else tuple(int(x) for x in ev.split(":"))
                    for x in res:
                        t, i, _ = x.split(":")
                        if b is not None and (int(t), int(i)) <= b:
                            why = "after drain resident %s:%s is at or below the boundary %s" % (t, i, b)
                if why:
                    bad += 1
                    if bad <= 3:
                        ctx.fail("oracle", "C15 oracle: " + why, dict(kind="seq", case=c, at_op=k, op=prev_op, detail=why))
                boundary_before = None if ev == "-" else tuple(int(x) for x in ev.split(":"))
    ctx.count("stat_vs_resident_checks", nchk)
    ctx.count("over_limit_states_checked", over)
    ctx.k_checks["oracle-counts-exact-pinned-drain"] = (bad == 0, nchk)
    cov(ctx, cases, impl, "histories under cache limits {0,1,2,3} x {0,1,10,1G} with refused writes, truncations, purges of pinned entries; stat() and the resident (log id, size) list (verif-hooks accessor) after every operation, drains after idle; non-trivial = contains rotation or refused operation")
    return core.finish(ctx, proof)


LIMITS = [0, 1, 2, (1 << 63), (1 << 64) - 2, (1 << 64) - 1]


def run_C16(ctx):
    proof = core.proof_stage("C16")
    core.builds(("debug", "release"))
    rnd = ctx.rnd
    n = ctx.scale(300, 2500)
    cases = corpus("C16")
    for _ in range(n):
        cfg = gen.rand_cfg(rnd)
        ops, st, sim = gen.gen_history(rnd, rnd.randint(3, ctx.scale(40, 120)), p_reject=0.1,
                                       max_batch=1 if gen.cfg_rotates(cfg) else 4)
        out = []
        for o in gen.sync_ops(ops):
            out.append(o)
            if o == "I" and rnd.random() < 0.3:
                purged = sim.purged[1] if sim.purged else 0
                last = sim.last()[1] if sim.last() else 0
                args = LIMITS + [max(0, purged - 1), purged, purged + 1, max(0, last - 1), last, last + 1, last + 2]
                a, b = rnd.choice(args), rnd.choice(args)
                t = rnd.choice([0, 1, sim.term, (1 << 64) - 1])
                k = rnd.randrange(8)
                probe = ["T %d" % a, "R %d %d" % (a, b), "P %d %d" % (t, a), "C %d %d" % (t, a),
                         "A %d %d x61" % (t, a), "V %d %d" % (t, a), "R %d %d" % (b, a), "T %d" % b][k]
                ctx.count("probe_" + probe[0])
                out += [probe, "I", "G"]
        cases.append("SEQ %s | %s" % (cfg, " ; ".join(out + ["F 1", "I", "G", "R 0 %d" % ((1 << 64) - 1), "D", "Z"])))
    bad = 0
    for prof in ("debug", "release"):
        impl, model = seq_run(ctx, cases, "seq", profile=prof)
        for c, a in zip(cases, impl):
            if "panic" in a.split(" ; ") or " panic" in a or a.startswith("panic") or a == "hang":
                bad += 1
                if bad <= 3:
                    f = fields(a)
                    ops = ["open"] + [o.strip() for o in c.split("|", 1)[1].split(";")]
                    k = len(f) - 1
                    ctx.fail("oracle", "a public operation panicked (%s build): %s" % (prof, ops[k] if k < len(ops) else "?"),
                             dict(kind="seq", profile=prof, case=c, at_op=k, op=ops[k] if k < len(ops) else "?", observed=f[-1][:300]))
    ctx.k_checks["oracle-no-panic"] = (bad == 0, 2 * len(cases))
    cov(ctx, cases, impl, "histories with boundary arguments (0, 1, 2, purged-1..purged+1, last-1..last+2, 2^63, 2^64-2, 2^64-1) for truncate/read/purge/commit/append/save_vote injected at random points, run on a debug (overflow checks on) and a release build under catch_unwind; non-trivial = contains rotation or a refused operation")
    return core.finish(ctx, proof)


core.register("C11", "Props.C11", "theories/Props/C11.vo",
              ["C11_idle_disk_is_journal", "C11_invariant", "C11_structure", "C11_write_appends",
               "C11_rotation", "C11_on_disk_size", "C11_name_roundtrip", "C11_name_order", "C11_dump_after_flush_idle", "C11_dump_is_journal_refuted", "C11_dump_file_encs",
               "C11_invariant_restarts"])


def parse_stat_chunks(f):
    """stat field -> (closed [(id, recs, start, end, size, state)], open (..))"""
    def one(t):
        head, st = t.split(",{", 1)
        a = [int(x) for x in head.split(",")]
        return a + [st.rstrip("}")]
    cl = f[f.index("closed=[") + 8:f.index("] open=")]
    closed = [one(t) for t in cl.split(";") if t]
    op = f[f.index("] open=") + 7:f.index(" cache=")]
    return closed, one(op)


def state_str(st):
    v, l, c, p, u = st
    return gen.s_state((v, l, c, p, u))


def oracle_c11(case, a):
    """the property itself, from the implementation's output and raw files only"""
    f = fields(a)
    ops = ["open"] + [o.strip() for o in case.split("|", 1)[1].split(";")]
    cfg = case.split("|")[0].split()[1:]
    max_recs, max_size = gen.cfg_ints(cfg)[2:4]
    if not f[-1].startswith("disk ") or len(f) != len(ops):
        return None
    import p_recover
    disk = p_recover.parse_disk(f[-1])
    try:
        files = [(fid, data, pydec.decode_all(data)) for fid, data in disk]
    except Exception as e:
        return "a chunk file does not parse with the independent decoder: %r" % (e,)
    # (a) names abut, (b) heads
    for j in range(len(files) - 1):
        if files[j + 1][0] != files[j][0] + len(files[j][1]):
            return "files do not abut: %d + %d != %d" % (files[j][0], len(files[j][1]), files[j + 1][0])
    for fid, data, rs in files:
        if not rs or rs[0][0][0] != "S":
            return "file %d does not start with a state snapshot" % fid
    stat_k = max(i for i, x in enumerate(f) if x.startswith("stat "))
    closed, op = parse_stat_chunks(f[stat_k])
    chunks = closed + [op]
    if [c[0] for c in chunks] != [x[0] for x in files]:
        return "the files on disk %s are not the chunks reported by stat %s" % ([x[0] for x in files], [c[0] for c in chunks])
    for c, (fid, data, rs) in zip(chunks, files):
        if c[1] != len(rs) or c[3] != fid + len(data) or c[4] != len(data):
            return "stat of chunk %d (records %d, end %d, size %d) does not match its file (%d records, %d bytes)" % (fid, c[1], c[3], c[4], len(rs), len(data))
    for j in range(len(closed)):
        if state_str(files[j + 1][2][0][0][1]) != closed[j][5]:
            return "head snapshot of file %d is not the closing state of chunk %d" % (files[j + 1][0], closed[j][0])
    # (f) rotation discipline
    def full(n, sz):
        return n >= max_recs or sz >= max_size
    for c, (fid, data, rs) in zip(closed, files):
        n, sz, l = len(rs), len(data), rs[-1][2]
        if not full(n, sz):
            return "chunk %d was closed below both limits (%d records, %d bytes)" % (fid, n, sz)
        if n > 2 and full(n - 1, sz - l):
            return "chunk %d was not closed as soon as it reached a limit (%d records, %d bytes)" % (fid, n, sz)
    n, sz = op[1], op[4]
    if full(n, sz) and n != 1:
        return "the open chunk has reached a limit but was not closed (%d records, %d bytes)" % (n, sz)
    # (e) reported size
    size_k = [i for i, x in enumerate(f) if x.startswith("size ")]
    if size_k and int(f[size_k[-1]].split()[1]) != sum(len(x[1]) for x in files):
        return "on_disk_size %s != bytes of the retained files %d" % (f[size_k[-1]], sum(len(x[1]) for x in files))
    # (d) returned segments locate the record; (c) one record per accepted write, in call order
    pos = {}
    seq = []
    for fid, data, rs in files:
        for (r, o, l) in rs[1:]:
            pos[(fid + o, l)] = r
            seq.append((fid + o, l, r))
    first = files[0][0]
    expect = []       # (offset, record kind/key) for accepted journaling calls whose record lies in a retained file
    for k, o in enumerate(ops):
        if not o or o[0] not in "VATPCU" or not f[k].startswith("ok "):
            continue
        t = o.split()
        off, ln = int(f[k].split()[1]), int(f[k].split()[2])
        if off < first:
            continue
        r = pos.get((off, ln))
        if t[0] == "P" and (r is None or r[0] != "P" or r[1] != (int(t[1]), int(t[2]))):
            continue        # purge at an already purged index: journals nothing, returns the last segment
        if t[0] == "P" and any(e[0] == off for e in expect):
            continue        # a repeated purge returns the segment of the earlier purge record again
        if r is None:
            return "the segment (%d,%d) returned by `%s` is not a record boundary of the journal" % (off, ln, o[:60])
        want = None
        if t[0] == "V":
            want = ("V", (int(t[1]), int(t[2])))
        elif t[0] == "A":
            want = ("A", (int(t[-3]), int(t[-2])), bytes.fromhex(t[-1][1:]))
        elif t[0] == "C":
            want = ("C", (int(t[1]), int(t[2])))
        elif t[0] == "P":
            want = ("P", (int(t[1]), int(t[2])))
        if want is not None and r != want:
            return "the segment returned by `%s` holds %r" % (o[:60], r)
        if t[0] == "T" and r[0] != "T":
            return "the segment returned by truncate holds %r" % (r,)
        if t[0] == "U" and (r[0] != "S" or r[1][4] != (None if t[1] == "-" else bytes.fromhex(t[1][1:]))):
            return "the segment returned by save_user_data holds %r" % (r,)
        n_entries = (len(t) - 1) // 3 if t[0] == "A" else 1
        expect.append((off, ln, n_entries))
    # every record of the retained files at or after the first returned segment is accounted for by exactly one call
    if expect and first > 0 and expect[0][2] > 1:
        expect = expect[1:]      # a multi-entry append that straddles the oldest retained file
    if expect:
        # the first expected call may be a multi-entry append: its first record lies n-1 records before its returned segment
        idx = [i for i, (o, l, r) in enumerate(seq) if (o, l) == (expect[0][0], expect[0][1])]
        if not idx:
            return "the segment %s returned by a write is not a record of the journal" % (expect[0][:2],)
        start = idx[0] - (expect[0][2] - 1)
        if start < 0:
            return "fewer records before the first returned segment than the append wrote"
        lo = seq[start][0]
        have = [(o, l) for (o, l, r) in seq if o >= lo]
        want_n = sum(n for (_, _, n) in expect)
        # multi-entry appends return only the last segment: compare counts, and positions of the returned ones in order
        if len(have) != want_n:
            return "%d records in the journal from offset %d on, but %d accepted writes" % (len(have), lo, want_n)
        it = iter(have)
        for (off, ln, n) in expect:
            for _ in range(n):
                cur = next(it)
            if cur != (off, ln):
                return "records are not in call order: expected the record of a call at %s, found %s" % ((off, ln), cur)
    return None


def run_C11(ctx):
    proof = core.proof_stage("C11")
    core.builds()
    n = ctx.scale(500, 5000)
    cases = corpus("C11") + gen_cases(ctx, n, 5, ctx.scale(60, 250), big_cache=False, p_reject=0.08,
                                      finals=["F 1", "I", "G", "Z", "W", "K"], partial_batches=False)   # (the layout oracle counts one record per call answered Ok)
    # half of the histories go through one or two clean restarts under the SAME limits: the
    # journal must go on exactly as if there had been none (a re-opened chunk is closed at its limit too)
    rr = ctx.rnd
    for k, c in enumerate(cases):
        if rr.random() < 0.5:
            head, ops = c.split("|", 1)
            cfg = head.split(None, 1)[1].strip()
            ol = [o.strip() for o in ops.split(";") if o.strip()]
            idle = [i for i, o in enumerate(ol[:-6]) if o == "I"]
            for pos in sorted(rr.sample(idle, min(len(idle), rr.randint(1, 2))), reverse=True):
                ol[pos + 1:pos + 1] = ["F 1", "I", "X " + cfg]
            cases[k] = head + "| " + " ; ".join(ol)
            ctx.count("restarts_same_limits")
    # a dump of the live store abandoned after a few items, at idle points in the middle of the
    # history: the journal must go on exactly as without it
    for k, c in enumerate(cases):
        if rr.random() < 0.4:
            head, ops = c.split("|", 1)
            ol = [o.strip() for o in ops.split(";") if o.strip()]
            idle = [i for i, o in enumerate(ol[:-6]) if o == "I"]
            for pos in sorted(rr.sample(idle, min(len(idle), rr.randint(1, 3))), reverse=True):
                ol[pos + 1:pos + 1] = ["WA %d" % rr.choice([0, 1, 2, 3, 5])]
            cases[k] = head + "| " + " ; ".join(ol)
            ctx.count("aborted_dumps")
    # a purge whose record fills the open chunk (the rotation hands every byte to the worker, so
    # nothing is pending), then a flush WITHOUT callback as the last thing before the layout is
    # judged: the obsolete files must be gone and the reported size must be that of the files
    for j in range(ctx.scale(16, 80)):
        R = rr.choice([0, 1, 2, 3, 4, 5])
        cfg = "100000 1073741824 %d 1073741824 1 %d" % (R, rr.choice(gen.CFG_RBUF))
        per = max(1, R - 1)                                 # records per chunk besides the head
        k = rr.randint(2, 4)
        ops = ["A 1 %d x%02x" % (i, 0x30 + i) for i in range(k * per)] + [rr.choice(["F 1", "F 0"])]
        ops += ["V %d 1" % (2 + i) for i in range(per - 1)]  # the open chunk: head + per-1 votes
        ops += ["P 1 %d" % rr.randint(per - 1, k * per - 1)]
        cases.append("SEQ %s | %s" % (cfg, " ; ".join(gen.sync_ops(ops) + ["F 0", "I", "G", "Z", "W", "K"])))
        ctx.count("purge_fills_chunk_then_flush_without_callback")
    impl, model = seq_run(ctx, cases)
    bad = 0
    for c, a in zip(cases, impl):
        why = oracle_c11(c, a)
        if why:
            bad += 1
            if bad <= 3:
                ctx.fail("oracle", "C11 oracle: " + why, dict(kind="seq", case=c, detail=why))
    ctx.k_checks["oracle-journal-layout"] = (bad == 0, len(cases))
    # a rotation as the very last write before a restart WITHOUT flush (drop, reopen), then more
    # writes: no file may hold more records than the limit, files abut, every file starts with a snapshot
    ucases, ulim = [], []
    for j in range(ctx.scale(12, 80)):
        R = ctx.rnd.choice([2, 3, 4, 5])
        cfg = "100000 1073741824 %d 1073741824 1 %d" % (R, ctx.rnd.choice(gen.CFG_RBUF))
        k = ctx.rnd.randint(1, 3) * (R - 1)               # entries that exactly fill k/(R-1) chunks
        ops = ["A 1 %d x%02x" % (i, i) for i in range(k)]
        if ctx.rnd.random() < 0.5:
            ops.insert(ctx.rnd.randrange(len(ops)), "F 1")
        ops = gen.sync_ops(ops) + ["X " + cfg] + gen.sync_ops(["A 1 %d x%02x" % (i, i) for i in range(k, k + ctx.rnd.randint(1, R + 1))]) + ["F 1", "I", "G", "K"]
        ucases.append("SEQ %s | %s" % (cfg, " ; ".join(ops)))
        ulim.append(R)
    ui, um = seq_run(ctx, ucases)
    badu = 0
    for c, a, R in zip(ucases, ui, ulim):
        f = fields(a)
        why = None
        if not f[-1].startswith("disk "):
            why = "the history did not run to its end: " + a[-200:]
        else:
            import p_recover as _pr
            prev = None
            for fid, data in _pr.parse_disk(f[-1]):
                rs = pydec.decode_all(data)
                if len(rs) > max(R, 2):
                    why = "chunk file %d holds %d records, the limit is %d" % (fid, len(rs), R)
                if not rs or rs[0][0][0] != "S":
                    why = "chunk file %d does not start with a state snapshot" % fid
                if prev is not None and prev != fid:
                    why = "files do not abut at %d" % fid
                prev = fid + len(data)
        if why:
            badu += 1
            if badu <= 3:
                ctx.fail("oracle", "C11 oracle: after a restart without flush right behind a rotation: " + why, dict(kind="seq", case=c, detail=why))
    ctx.k_checks["oracle-rotation-then-unflushed-restart"] = (badu == 0, len(ucases))
    # the same layout facts after a chunk rotation that failed on the caller thread (the next
    # file could not be created) and the writes that followed: judged on the implementation alone
    import p_trace, p_recover
    fcases = p_trace.failed_rotation_cases(ctx.rnd, ctx.scale(10, 60), ["snap"])
    # ... and with flushed data still queued for the worker (held) when a chunk fills up and
    # is rotated, and when the next one does: the records must lie in the files in call order
    for j in range(ctx.scale(10, 60)):
        R = ctx.rnd.choice([3, 4, 5])
        cfg = "100000 1073741824 %d 1073741824 1 64" % R
        n = ctx.rnd.randint(R, 3 * R)
        items = []
        for i in range(n):
            items.append("A 1 %d x%02x%02x" % (i, i, j & 0xFF))
            if ctx.rnd.random() < 0.5:
                items.append(ctx.rnd.choice(["F 1", "F 0"]))           # not followed by any worker step
            if ctx.rnd.random() < 0.15:
                items.append("w 1")
        fcases.append("TRACE %s | %s" % (cfg, " ; ".join(items + ["F 1", "wi", "snap"])))
    flogs = p_trace.run_traces(fcases, ctx.wd, "c11c")
    badf = 0
    for c, l in zip(fcases, flogs):
        ev = [e.strip() for e in l.split(" ; ")]
        snaps = [e for e in ev if e.startswith("c snap disk")]
        why = None
        if not snaps:
            why = "no snapshot: " + l[:80]
        else:
            disk = p_recover.parse_disk("disk " + snaps[-1].split("snap disk", 1)[1])
            try:
                files = [(fid, data, pydec.decode_all(data)) for fid, data in disk]
            except Exception as e:
                files, why = [], "a chunk file does not parse: %r" % (e,)
            for j in range(len(files) - 1):
                if files[j + 1][0] != files[j][0] + len(files[j][1]):
                    why = "files do not abut: %d + %d != %d" % (files[j][0], len(files[j][1]), files[j + 1][0])
            bounds = set()
            for fid, data, rs in files:
                if not rs or rs[0][0][0] != "S":
                    why = why or "file %d does not start with a state snapshot" % fid
                for (r, o, ln) in rs:
                    bounds.add((fid + o, ln))
            call = None
            for e in ev:
                if e.startswith("c call "):
                    call = e[7:]
                elif e.startswith("c ret ok ") and call and call[0] in "VATPCU":
                    t = e.split()
                    if (int(t[3]), int(t[4])) not in bounds:
                        why = why or "the segment (%s,%s) returned by `%s` is not a record of the journal on disk" % (t[3], t[4], call[:40])
                    elif call[0] == "A" and len(call.split()) == 4:
                        # ... and it is THAT record
                        ct = call.split()
                        rec = [r for fid, data, rs in files for (r, o, ln) in rs if (fid + o, ln) == (int(t[3]), int(t[4]))]
                        if rec and not (rec[0][0] == "A" and rec[0][1] == (int(ct[1]), int(ct[2]))):
                            why = why or "the segment (%s,%s) returned by `%s` holds another record: %s" % (t[3], t[4], call[:40], str(rec[0])[:80])
        if why:
            badf += 1
            if badf <= 3:
                ctx.fail("oracle", "C11 oracle: after a failed rotation: " + why, dict(kind="trace", case=c, trace=l[:3000]))
    ctx.k_checks["oracle-journal-layout-after-failed-rotation"] = (badf == 0, len(fcases))
    # the standalone Dump on the flushed, idle directory lists what RaftLog::dump() listed
    # (theorem C11_dump_after_flush_idle), without an error item
    dcases, dwant = [], []
    for c, a in zip(cases, impl):
        f = fields(a)
        if len(f) >= 2 and f[-1].startswith("disk ") and f[-2].startswith("dump"):
            dcases.append("DUMPDIR | " + f[-1][5:].replace(",", " "))
            dwant.append(f[-2])
    if dcases:
        di = C.run_impl(dcases, ctx.wd, "dumpdir")
        dm = C.run_model(dcases, ctx.wd, "dumpdir")
        core.compare(ctx, "dump-of-clean-directory", dcases, di, dm)
        badd = 0
        for c, a, w in zip(dcases, di, dwant):
            why = None
            if ":err:" in a or not a.startswith("dump"):
                why = "the standalone Dump reports an error on a flushed, idle directory: " + a[:300]
            elif a.split() != w.split():
                why = "the standalone Dump and RaftLog::dump() disagree on a flushed, idle directory"
            if why:
                badd += 1
                if badd <= 3:
                    ctx.fail("oracle", "C11 oracle: " + why, dict(kind="image", case=c[:6000], observed=a[:1500], expected=w[:1500]))
        ctx.k_checks["oracle-dump-lists-the-journal"] = (badd == 0, len(dcases))
    # file-name codec: rendering of offsets and parsing of names (through load_chunk_ids)
    rnd = ctx.rnd
    nums = gen.BOUNDARY_INTS + [rnd.getrandbits(rnd.choice([8, 20, 40, 63, 64])) for _ in range(ctx.scale(2000, 20000))]
    ncases = ["NAME %d" % x for x in nums]
    ni = C.run_impl(ncases, ctx.wd, "names")
    nm = C.run_model(ncases, ctx.wd, "names")
    core.compare(ctx, "names-render", ncases, ni, nm)
    pcases = []
    for x, h in zip(nums, ni):
        b = bytearray(bytes.fromhex(h[1:]))
        pcases.append("PARSE " + gen.hx(b))
        for _ in range(2):
            m = bytearray(b)
            k = rnd.randrange(6)
            if k == 0:
                m[rnd.randrange(len(m))] = rnd.choice(b"0123456789_-.rwalx9")
            elif k == 1:
                del m[rnd.randrange(len(m))]
            elif k == 2:
                m.insert(rnd.randrange(len(m)), rnd.choice(b"0123456789_"))
            elif k == 3:
                m = bytearray(b"r-" + bytes(rnd.choice(b"0123456789_") for _ in range(26)) + b".wal")
            elif k == 4:
                m = bytearray(b"r-" + bytes(rnd.choice(b"9876") for _ in range(26)) + b".wal")
            else:
                m = m[:-1] + b"L"
            if b"/" in m or 0 in m:
                continue
            pcases.append("PARSE " + gen.hx(m))
    pi = C.run_impl(pcases, ctx.wd, "parse")
    pm = C.run_model(pcases, ctx.wd, "parse")
    core.compare(ctx, "names-parse", pcases, pi, pm)
    badn = 0
    for x, h, c, r in zip(nums, ni, [p for p in pcases if True], pi):
        pass
    canon = {}
    for c, r in zip(pcases, pi):
        canon[c] = r
    for x, h in zip(nums, ni):
        if canon.get("PARSE " + h) != "some %d" % x:
            badn += 1
            if badn <= 3:
                ctx.fail("oracle", "the name of chunk offset %d does not parse back to it: %s" % (x, canon.get("PARSE " + h)),
                         dict(kind="name", case="NAME %d" % x, observed=h))
    srt = sorted(zip(nums, ni))
    for (a, ha), (b, hb) in zip(srt, srt[1:]):
        if a < b and not bytes.fromhex(ha[1:]) < bytes.fromhex(hb[1:]):
            badn += 1
            ctx.fail("oracle", "file names do not sort like offsets: %d, %d" % (a, b), dict(kind="name", case="NAME %d / NAME %d" % (a, b)))
            break
    ctx.k_checks["oracle-name-roundtrip-order"] = (badn == 0, len(nums))
    ctx.cov["evaluations"] = ctx.cov.get("evaluations", 0) + len(ncases) + len(pcases)
    cov(ctx, cases, impl, "histories x chunk limits incl. 0 and 1 (records) and 0, 1, 60, 150, 400 (bytes); after flush + idle the raw chunk files are decoded by an independent decoder: names abut, heads are the closing states, one record per accepted write in call order, every returned segment locates its record, rotation exactly at the limit, on_disk_size; non-trivial = contains a rotation or a refused operation")
    return core.finish(ctx, proof)


core.register("C02", "Props.C02", "theories/Props/C02.vo",
              ["C02_restart", "C02_restart_continue", "C02_restart_cycles"])


def failed_rotation_restart(ctx):
    """C02 where a chunk rotation failed on the caller thread (the next file could not be
    created): after flush, idle, drop and reopen the store shows what it showed before.
    The model has no caller-side I/O failure: judged on the implementation alone."""
    import p_trace
    cases = p_trace.failed_rotation_cases(ctx.rnd, ctx.scale(10, 60), ["G", "R 0 100000", "drop", "open CFG", "G", "R 0 100000"])
    logs = p_trace.run_traces(cases, ctx.wd, "c02c")
    bad = 0
    for c, l in zip(cases, logs):
        ev = [e.strip() for e in l.split(" ; ")]
        why = None
        if l in ("hang", "harness-panic") or "c panic" in ev:
            why = "panic or hang: " + l[:80]
        elif any(e.startswith("c openerr") for e in ev[2:]):
            why = "the directory does not reopen after a failed rotation: " + [e for e in ev[2:] if e.startswith("c openerr")][0]
        else:
            stats = [state_of_stat(e) for e in ev if e.startswith("c ret stat ")]
            reads = [e for e in ev if e.startswith("c ret read ")]
            if len(stats) >= 2 and len(reads) >= 2 and (stats[-1] != stats[-2] or reads[-1] != reads[-2]):
                why = "state or entries differ across the restart: before `%s %s` after `%s %s`" % (stats[-2], reads[-2][:200], stats[-1], reads[-1][:200])
        if why:
            bad += 1
            if bad <= 3:
                ctx.fail("oracle", "C02 oracle: " + why, dict(kind="trace", case=c, trace=l[:3000]))
    ctx.k_checks["oracle-restart-after-failed-rotation"] = (bad == 0, len(cases))


def run_C02(ctx):
    proof = core.proof_stage("C02")
    core.builds()
    failed_rotation_restart(ctx)
    n = ctx.scale(400, 4000)
    cases = corpus("C02") + gen_cases(ctx, n, 5, ctx.scale(60, 250), big_cache=True, p_reject=0.05, restarts=4,
                                      finals=["F 1", "I", "W", "G", "R 0 100000", "D", "K",
                                              "X 100000 1073741824 3 200 1 1", "G", "R 0 100000", "D", "K"])
    # restarts under a TINY cache: whatever sits in the re-opened newest chunk (entries before and
    # after a state record written in the middle of it, say) must still be readable afterwards;
    # append-only histories (no truncation: finding F2 of C07 is not C02's subject)
    rnd = ctx.rnd
    tiny = []
    for j in range(ctx.scale(40, 300)):
        recs = rnd.choice([3, 4, 6, 9, 1 << 20])
        cfg = "%s %d 1073741824 1 %d" % (rnd.choice(["100000 1073741824", "2 1073741824", "0 0"]), recs, rnd.choice(gen.CFG_RBUF))
        ops, idx = [], 0
        for _ in range(rnd.randint(3, 14)):
            r = rnd.random()
            if r < 0.6:
                ops.append("A 1 %d %s" % (idx, gen.hx(gen.rand_payload(rnd, big=0.02)))); idx += 1
            elif r < 0.8:
                ops.append("U %s" % gen.hx(gen.rand_payload(rnd, big=0.0)))
            elif r < 0.9:
                ops.append("V %d 1" % (2 + len(ops)))
            elif idx:
                ops.append("C 1 %d" % rnd.randrange(idx))
        small = "%d %d %d 1073741824 1 %d" % (rnd.choice([0, 1, 2]), rnd.choice([0, 16, 1 << 30]), rnd.choice([recs, recs, 1 << 20]), rnd.choice(gen.CFG_RBUF))
        tiny.append("SEQ %s | %s" % (cfg, " ; ".join(gen.sync_ops(ops) + ["F 1", "I", "W", "G", "R 0 100000", "D", "K", "X " + small, "E", "G", "R 0 100000", "D", "K"])))
        ctx.count("tiny_cache_restarts")
    ti, tm = seq_run(ctx, tiny, name="seq-tiny")
    tbad = 0
    for c, a in zip(tiny, ti):
        f = fields(a)
        if len(f) < 12 or not f[-10].startswith("stat"):
            continue
        before = (state_of_stat(f[-10]), f[-9], f[-8], f[-7])
        after = (state_of_stat(f[-4]), f[-3], f[-2], f[-1])
        if f[-6] != "opened" or before != after:
            tbad += 1
            if tbad <= 3:
                which = [n for n, x, y in zip(("state", "read", "snapshot iteration", "directory bytes"), before, after) if x != y]
                ctx.fail("oracle", "C02 oracle: %s differ(s) across a clean restart under a tiny cache (%s)" % (", ".join(which), f[-6][:80]),
                         dict(kind="seq", case=c, before=[x[:300] for x in before], after=[x[:300] for x in after]))
    ctx.k_checks["oracle-same-after-restart-under-tiny-cache"] = (tbad == 0, len(tiny))
    ctx.cov["evaluations"] = ctx.cov.get("evaluations", 0) + len(tiny)
    impl, model = seq_run(ctx, cases)
    spec_oracle(ctx, cases, impl, "C02 oracle")
    # direct: what is observed right after every restart equals what was observed right before it,
    # and a clean restart leaves the directory byte-for-byte unchanged
    bad, nre = 0, 0
    for c, a in zip(cases, impl):
        f = fields(a)
        ops = ["open"] + [o.strip() for o in c.split("|", 1)[1].split(";")]
        for k, o in enumerate(ops):
            if o.startswith("X ") and k < len(f):
                nre += 1
                if f[k] != "opened":
                    bad += 1
                    ctx.fail("oracle", "a clean restart did not open: " + f[k], dict(kind="seq", case=c, at_op=k, op=o))
                    break
        # the final block: G R D K  X  G R D K
        if len(f) == len(ops) and f[-9].startswith("stat") and f[-4].startswith("stat"):
            before = (state_of_stat(f[-9]), f[-8], f[-7], f[-6])
            after = (state_of_stat(f[-4]), f[-3], f[-2], f[-1])
            if before != after:
                bad += 1
                if bad <= 3:
                    which = [n for n, x, y in zip(("state", "read", "snapshot iteration", "directory bytes"), before, after) if x != y]
                    ctx.fail("oracle", "C02 oracle: %s differ(s) across a clean restart" % ", ".join(which),
                             dict(kind="seq", case=c, before=[x[:300] for x in before], after=[x[:300] for x in after]))
    ctx.count("restarts_checked", nre)
    ctx.k_checks["oracle-same-before-and-after-restart"] = (bad == 0, nre)
    cov(ctx, cases, impl, "histories with 1-4 clean restarts (flush, idle, drop, open) at random positions, every restart under a freshly drawn configuration (chunk limits incl. 0/1, read buffer), 5% refused operations; state, full read, snapshot iteration and raw directory bytes compared across the final restart; non-trivial = contains a rotation or a refused operation")
    return core.finish(ctx, proof)
