"""K-seq based checks: C01 (sequential semantics), C02 (clean restart), C06 (rejected
writes), C11 (journal layout), C15 (cache accounting), C16 (no panics)."""
import common as C, core, gen

FINAL = ["F 1", "I", "G", "R 0 100000", "D", "Z", "K"]


def spec_lines(cases, wd):
    return C.run_model(["SPEC" + c[3:] for c in cases], wd, "spec")


def fields(line):
    return line.split(" ; ")


def state_of_stat(f):
    # "... state={v l c p u}"
    i = f.rfind("state={")
    return f[i:]


def oracle_c01(ctx, case, impl_line, spec_line, strict_rejects=True):
    """The property itself on the implementation: every read and every reported state
    equals the reference log's; accepted/refused as the reference log decides."""
    ops = ["open"] + [o.strip() for o in case.split("|", 1)[1].split(";")]
    fi, fs = fields(impl_line), fields(spec_line)
    for k, (a, b) in enumerate(zip(fi, fs)):
        op = ops[k] if k < len(ops) else "?"
        if b == "-" or b == "opened":
            continue
        if b == "unsupported":
            return None
        if b == "illegal":
            ctx.count("oracle_stopped_at_illegal_purge")
            return None          # not a Raft-legal history from here on: the property does not speak
        if b == "acc":
            if not a.startswith("ok "):
                return k, op, "the reference log accepts this write, the implementation answered: " + a[:200]
        elif b == "rej":
            if not a.startswith("err "):
                return k, op, "the reference log refuses this write, the implementation answered: " + a[:200]
        elif b.startswith("read"):
            if a != b:
                return k, op, "read differs: implementation %s / reference %s" % (a[:300], b[:300])
        elif b.startswith("state={"):
            if state_of_stat(a) != b:
                return k, op, "state differs: implementation %s / reference %s" % (state_of_stat(a)[:300], b[:300])
    if len(fi) < len(fs):
        return len(fi) - 1, ops[len(fi) - 1] if len(fi) - 1 < len(ops) else "?", "run ended early with: " + fi[-1][:200]
    return None


def gen_cases(ctx, n, nops_lo, nops_hi, big_cache=True, small_cache=False, restarts=0, p_reject=0.0, finals=FINAL):
    rnd = ctx.rnd
    cases = []
    for _ in range(n):
        nops = rnd.randint(nops_lo, nops_hi)
        ops, st, sim = gen.gen_history(rnd, nops, p_reject=p_reject)
        for k, v in st.items():
            ctx.count("ops_" + k, v)
        if restarts:
            # insert restarts with a freshly drawn configuration: flush first (clean restart)
            nr = rnd.randint(1, restarts)
            for _ in range(nr):
                pos = rnd.randint(0, len(ops))
                cfg2 = gen.rand_cfg(rnd, big_cache=big_cache, small_cache=small_cache)
                ops[pos:pos] = ["F 1", "I", "X " + cfg2, "G", "R 0 100000"]
                ctx.count("restarts")
        cfg = gen.rand_cfg(rnd, big_cache=big_cache, small_cache=small_cache)
        ctx.count("cfg_recs_" + cfg.split()[2])
        line = "SEQ %s | %s" % (cfg, " ; ".join(gen.sync_ops(ops) + finals))
        cases.append(line)
    return cases


def nontrivial(cases, impl):
    """distinct cases that contain at least one rotation (a closed chunk in some stat)
    or one refused/boundary operation"""
    s = set()
    for c, r in zip(cases, impl):
        if "closed=[]" not in r.replace("closed=[] ", "closed=[] ", 1) or " err " in r or "closed=[" in r and "closed=[]" != r[r.find("closed=["):r.find("closed=[") + 9]:
            s.add(c)
    return len(s)


def run_C01(ctx):
    proof = core.proof_stage("C01")
    core.builds()
    n = ctx.scale(500, 6000)
    cases = gen_cases(ctx, n, 5, ctx.scale(60, 300), big_cache=True, p_reject=0.0)
    # small exhaustive-ish scope as support in thorough mode
    impl = C.run_impl(cases, ctx.wd)
    model = C.run_model(cases, ctx.wd)
    core.compare(ctx, "seq", cases, impl, model)
    spec = spec_lines(cases, ctx.wd)
    bad = 0
    for c, a, s in zip(cases, impl, spec):
        r = oracle_c01(ctx, c, a, s)
        if r is not None:
            bad += 1
            if bad <= 3:
                ctx.fail("oracle", "C01 oracle: " + r[2], dict(kind="seq", case=c, at_op=r[0], op=r[1], detail=r[2]))
    ctx.k_checks["oracle-reference-log"] = (bad == 0, len(cases))
    ctx.cov["evaluations"] = len(cases)
    ctx.cov["distinct_nontrivial"] = nontrivial(cases, impl)
    ctx.cov["rule"] = "seeded structured legal histories x random chunk/read-buffer settings, big cache; distinct by case line; non-trivial = contains a chunk rotation or a boundary operation"
    ctx.cov["samples"] = [cases[0][:1500], cases[1][:1500]]
    return core.finish(ctx, proof)
