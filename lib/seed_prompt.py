"""Writes the prompt for a seeded-change sub-agent: only the property text and the rules.
usage: seed_prompt.py <new id e.g. G03> <property id> > prompt.txt"""
import json, sys, os
HERE = os.path.dirname(os.path.dirname(os.path.abspath(__file__)))
PREV = {
 "C01": "purge removing closed chunks with retain/filter instead of a prefix; truncate_after(None) not resetting `last`; RaftLogState::purge not raising `last` when it is None; truncate's purged-boundary test moved into get_log_id with the wrong index; check_vote accepting incomparable votes; TruncateAfter replay returning early when nothing is removed; the index map trimmed by popping entries (TruncateAfter(None) keeping index 0)",
 "C02": "purge removing closed chunks with retain/filter; open() removing a newest chunk that holds only its head record; TruncateAfter replay skipping split_off when the index is absent; open() rotating a full re-opened chunk with a stale head snapshot; the post-restart eviction boundary computed as a maximum over closed chunks; the record scan bounded by min(file size, read_buffer_size); Chunk::open pre-allocating chunk_max_records() offsets",
 "C03": "a flush with nothing pending skipping fdatasync; open() not restoring the cache eviction boundary when it re-opens the previous chunk; the chunk-gap check in open() run only after a truncated chunk; open() removing a newest chunk that holds only its head record; purge popping chunks before the purge record is journalled; rotation writing the old chunk's pending tail from the caller thread; a flush without a callback not asking for a sync",
 "C04": "a flush with nothing pending acknowledging on the caller thread; the worker skipping fdatasync when sync_id equals the flush offset; send_flush using try_send (WouldBlock on a full channel); the worker writing a batch with one write_vectored call; the worker forgetting tracked files on AppendFile; callbacks of one batch fired in reverse order; rotation taking the pending bytes before creating the next file",
 "C05": "purged chunk files unlinked newest-first; record-less newest file removed only when its length is 0; purge selecting chunks with retain (filter) instead of take-while; the payload decode error re-wrapped as InvalidData; chunk files created as .tmp and renamed; a torn tail longer than 64 KiB never truncated; a pid written into the LOCK file",
 "C06": "validate skipping the id-order check for the consecutive index; truncate accepting index <= next(purged); append_and_apply rotating a full open chunk before validating; check_vote rewritten with `<` (partial order); check_commit comparing with min(committed, last); pre-journal validation skipped for appends when the index map is empty; votes and commits skipping the pre-journal validation",
 "C07": "the eviction boundary not moving backwards; the dump snapshot sharing the live cache; eviction comparing log indexes instead of log ids; PayloadCache::insert returning early when max_items is 0; read() using try_read on the cache lock; snapshot iteration removing payloads from the snapshot's cache copy; open() not restoring the eviction boundary when the newest chunk is discarded",
 "C08": "purge comparing indexes instead of log ids; batches without data bytes skipping the sync; purge popping obsolete chunks before journalling the purge record; purge selecting chunks with retain; postponed removals executed after the batch-ending request; a closed chunk whose last is None never selected by purge; flush(None) with nothing pending sending nothing and keeping the removals",
 "C09": "the gap check moved below the removal of a record-less newest file; positional read of a closed chunk skipping the checksum; open() forgiving a gap in front of a head-only newest chunk; any decode error in a chunk's head record treated as incomplete; the trailing-zero scan reading 0 bytes on a 1 KiB boundary; a short read marking EOF so later decode errors become UnexpectedEof; global_end() computed from last_segment()",
 "C10": "record-less newest file removed only if it was truncated; EOF with truncation disabled returning Ok(false); open() not restoring the eviction boundary when re-opening the previous chunk; verify_trailing_zeros comparing a global offset with the file size; a non-EOF error before the first record returned without the zero scan; record body decode errors re-wrapped as InvalidData; files shorter than 12 bytes bypassing the truncation setting",
 "C11": "on_disk_size falling back to 0; append returning wal.last_segment() after the loop; purge selecting chunks with retain (filter); is_open_chunk_full using == for the record count; commit of the already committed id returning early; a configured chunk limit of 0 treated as unset; the open chunk's size counted from 0 after a reopen",
 "C12": "the decoder limiting a record to 1 MiB; the State record accepting version byte 0; the encoder using a thread-local buffer cleared only after success; the encoder under-reporting the size of TruncateAfter(None); State decode defaulting last to purged; the record type narrowed to u8 in the decoder; undecodable user_data in a State record decoded as None",
 "C13": "Drop unlinking the LOCK file before unlocking; open() listing the directory before taking the lock; Drop not joining the worker while panicking; Dump::new taking no lock when the LOCK file does not exist; the worker holding a try_clone of the lock file; Dump taking the lock in shared mode; a process-wide registry of held directories leaking an entry on a refused attempt",
 "C14": "removals on a detached helper thread; the lock field moved before the wal field (drop order); Drop not joining the worker while panicking; Drop waiting for the worker at most 2 seconds; the worker discarding queued requests once drop has started; every worker request sent with try_send; purge using retain so that a middle chunk is unlinked",
 "C15": "truncate(0) clearing the map but not the byte counter; drain_evictable returning early when nothing is pinned; eviction deferred during a batch append with the flag not reset on error; the eviction loop stopping after 64 evictions per insert; insert of a 0-byte payload skipping eviction; read() refilling the cache on a miss without holding the lock across check and insert; stat() evicting after it built its answer",
 "C16": "read raising `from` past the inverted-range guard; purge computing next_log_index(None) - 1; the index-limit check skipped when the id is not above last; a diagnostic in truncate computing next_log_index(committed); check_append subtracting indexes; check_vote reaching unreachable!() for incomparable votes; a shared cache-miss reader indexing chunks[&id]",
}
new, pid = sys.argv[1], sys.argv[2]
focus = sys.argv[3] if len(sys.argv) > 3 else None
prop = None
for l in open(os.path.join(HERE, "properties.jsonl")):
    p = json.loads(l)
    if p["id"] == pid:
        prop = p
w = "/tmp/mut/%s" % new
print("""You are helping to evaluate a verification effort for the Rust crate raft-log (chunked, checksummed write-ahead log for Raft). Your job: write ONE realistic code change (the kind of slip a maintainer could make in a refactoring, optimisation or "robustification") that BREAKS the semantic property below while the crate still compiles and its existing test suite still passes.

## The property (id %s)
Title: %s
Statement: %s
Quantification: %s
Why the existing tests cannot settle it: %s
Anchors in the code: %s

## Your workspace
A private git worktree of the crate: %s (already created for you; work ONLY there; never touch /repo or /verif and do not read anything under /verif). Do not use `git stash` (stashes are shared between worktrees). Build/test offline: `cd %s && CARGO_NET_OFFLINE=true cargo test --offline`.

## Requirements
1. The change touches only files under src/ (a few lines to a few dozen lines), compiles, and `cargo test --offline` passes ALL existing tests with it (run it and check the counts).
2. It breaks the property: write a demonstration as an integration test file (uses only the crate's public API plus std; file name demo_%s.rs, to be dropped into tests/) that FAILS with your change and PASSES on the original code. Run it both ways yourself (copy it into tests/, run `cargo test --offline --test demo_%s`, then `git checkout -- src`-free way: revert your change by `git apply -R`, run again, re-apply). tests/ already contains helpers you may look at for how the API is used.
3. The failure must need something specific to manifest (a particular sequence of operations, timing, crash point, argument, configuration) — not something every use of the crate trips over, and not something the existing tests would notice.
4. It must be a DIFFERENT mechanism and code location from changes already studied for this property: %s. Prefer the subtle kind: boundary conditions, ordering of two effects, a condition that is equivalent except in one corner, state carried across a restart, interaction of two features (truncate + purge, rotation + flush, cache limit + reopen, failure + retry).
%s5. No test-only tricks (no cfg(test), no env vars, no sleeping to win races unless the property is about timing), no changes to tests/, Cargo.toml, or public signatures.

## Deliver
Create %s/out/ containing: patch.diff (`git diff -- src > out/patch.diff`, must apply to the original tree with `git apply`), demo_%s.rs (the demonstration test), meta.txt (what was changed and why it looks harmless; which clause of the property it breaks; exactly what is needed for it to manifest; what you ran and the results with and without the change). Leave the worktree with your change applied. Reply with a 5-line summary.""" % (
    pid, prop["title"], prop["statement"], prop["quantifier"]["text"], prop["why_tests_cant"],
    json.dumps(prop["anchors"]["files"]), w, w, new.lower(), new.lower(), PREV[pid],
    ("4b. Earlier changes clustered in raft_log.rs, flush_worker.rs and payload_cache.rs. This time look first for a slip in or around `%s` (or in how its callers use it) that breaks THIS property; fall back to another little-visited file if you find none there.\n" % focus) if focus else "",
    w, new.lower()))
