"""C12: codec round trip and total decoding."""
import common as C, core, gen

core.register("C12", "Props.C12", "theories/Props/C12.vo",
              ["C12_roundtrip", "C12_canonical", "C12_no_overread", "C12_consumed_is_size",
               "C12_prefix_is_eof", "C12_total"])


def mutations(rnd, b, ctx, per_record):
    """malformed stream derived from one valid encoding"""
    out = []
    n = len(b)
    # truncations: every length for small records, a sample for large ones
    cuts = range(n) if n <= 80 else sorted(set(rnd.randrange(n) for _ in range(40)) | {0, 1, 3, 4, 5, n - 9, n - 8, n - 1})
    for c in cuts:
        out.append(b[:c]); ctx.count("dec_truncated")
    for _ in range(per_record):
        p = rnd.randrange(n)
        v = rnd.randrange(1, 256)
        m = bytearray(b); m[p] ^= v
        # keep allocations of the real decoder bounded: do not blow a length prefix up beyond 64 MB
        out.append(bytes(m)); ctx.count("dec_single_byte_mutation")
    # structural: tag rewritten, version byte, option tags
    for t in (0, 1, 2, 3, 4, 5, 6, 255, 1 << 31):
        m = bytearray(b); m[0:4] = (t & 0xFFFFFFFF).to_bytes(4, "big")
        out.append(bytes(m)); ctx.count("dec_tag_rewritten")
    out.append(b + bytes(rnd.getrandbits(8) for _ in range(rnd.randint(1, 9)))); ctx.count("dec_valid_with_tail")
    # trailer and window surgery: the checksum trailer is 8 bytes (4 zero bytes + CRC-32); a decoder
    # that tolerates another trailer width, a shifted or duplicated field would show only on inputs
    # where whole fields are deleted, duplicated or overwritten by their neighbour
    if n >= 12:
        crc4 = b[-4:]
        out.append(b[:-8] + crc4); ctx.count("dec_window_surgery")                 # padding deleted
        out.append(b[:-8] + crc4 + crc4); ctx.count("dec_window_surgery")          # padding overwritten by the crc
        out.append(b[:-8] + crc4 + b[-8:-4]); ctx.count("dec_window_surgery")      # halves swapped
        out.append(b[:-8] + bytes(4) + b[-8:]); ctx.count("dec_window_surgery")    # padding doubled
        out.append(b[:-4] + b[-8:]); ctx.count("dec_window_surgery")
        for w in (1, 4, 8):
            for _ in range(2):
                q = rnd.randrange(0, n - w + 1)
                out.append(b[:q] + b[q + w:]); ctx.count("dec_window_surgery")     # window deleted
                out.append(b[:q + w] + b[q:]); ctx.count("dec_window_surgery")     # window duplicated
    # mutations of the body with the checksum recomputed: these get past the CRC and exercise the
    # decoder's own validation (version byte, option tags, type tag, length prefixes)
    import zlib
    body = b[:-8]
    cands = list(range(min(len(body), 64)))
    for p in (cands if len(body) <= 64 else rnd.sample(cands, 24)):
        for v in (0, 1, 2, 5, 255, body[p] ^ 1):
            if v == body[p]:
                continue
            m = bytearray(body); m[p] = v
            out.append(bytes(m) + (zlib.crc32(bytes(m)) & 0xFFFFFFFF).to_bytes(8, "big")); ctx.count("dec_mutated_with_valid_checksum")
    return out


def run(ctx):
    rnd = ctx.rnd
    proof = core.proof_stage("C12")
    core.builds()
    nrec = ctx.scale(3000, 20000)
    recs = []
    # all six kinds x option combinations x boundary integers first (deterministic part)
    for a in gen.BOUNDARY_INTS:
        for b in (0, gen.U64MAX):
            recs += ["V %d %d" % (a, b), "C %d %d" % (a, b), "P %d %d" % (b, a), "T %d:%d" % (a, b),
                     "A %d %d x" % (a, b), "A %d %d %s" % (b, a, gen.hx(b"\x00\xff" * 3))]
    recs.append("T -")
    for mask in range(32):
        st = tuple(((mask * 7 + i, gen.U64MAX - i) if mask >> i & 1 else None) for i in range(4)) + \
             ((b"user-%d" % mask) if mask >> 4 & 1 else None,)
        recs.append("S " + gen.s_state(st))
    recs.append("A 1 1 " + gen.hx(bytes(range(256)) * 40))      # 10 KB payload
    # large records: around 64 KiB and around 1 MiB (a size limit in the decoder that the
    # encoder does not have would show only here)
    big = [65535, 65536, 65537, (1 << 20) - 40, (1 << 20) + 1] + ([(1 << 21) + 3, 3 << 20] if ctx.thorough() else [])
    for n in big:
        recs.append("A 7 %d %s" % (n, gen.hx(bytes((i * 7 + n) & 0xFF for i in range(n)))))
    recs.append("S 1:2 3:4 - 5:6 " + gen.hx(bytes((i * 13) & 0xFF for i in range((1 << 20) + 17))))
    while len(recs) < nrec:
        recs.append(gen.rand_record(rnd))
    for r in recs:
        ctx.count("enc_" + r[0])
    enc_cases = ["ENC " + r for r in recs]
    impl = C.run_impl(enc_cases, ctx.wd, "enc")
    model = C.run_model(enc_cases, ctx.wd, "enc")
    core.compare(ctx, "bytes(a)-encode", enc_cases, impl, model)
    # encode again after a failed attempt on the same thread (a writer that fails after k bytes):
    # what is produced must be the same bytes
    fcases, fwant = [], []
    for r, line in zip(recs, impl):
        if len(r) > 3000 or line == "panic" or line.startswith("err"):
            continue
        nb = (len(line.split()[0]) - 1) // 2
        for k in sorted(set([0, 1, 4, nb // 2, max(0, nb - 8), max(0, nb - 1)])):
            fcases.append("ENCF %d %s" % (k, r)); fwant.append(line)
    fi = C.run_impl(fcases, ctx.wd, "encf")
    fm = C.run_model(fcases, ctx.wd, "encf")
    core.compare(ctx, "bytes(a)-encode-after-failed-encode", fcases, fi, fm)
    for c, a, w in zip(fcases, fi, fwant):
        if a != w:
            ctx.fail("oracle", "encoding a record right after a failed encode on the same thread gives other bytes than encoding it afresh",
                     dict(kind="bytes", case=c[:4000], observed=a[:2000], expected=w[:2000]))
            break
    ctx.count("enc_after_failure", len(fcases))
    # pass 2: decode the implementation's own encodings, and a malformed stream
    dec_inputs, origin = [], []
    per = ctx.scale(3, 12)
    for r, line in zip(recs, impl):
        if line == "panic" or line.startswith("err"):
            ctx.fail("oracle", "encoder failed or panicked", dict(kind="bytes", case="ENC " + r, observed=line))
            continue
        hexs, n = line.split()
        b = bytes.fromhex(hexs[1:])
        if int(n) != len(b):
            ctx.fail("oracle", "encoder reported %s bytes but wrote %d" % (n, len(b)), dict(kind="bytes", case="ENC " + r, observed=line))
        dec_inputs.append(b); origin.append(("valid", r, len(b)))
        if len(b) > 20000:
            # large record: a few cuts and one flip only
            for c in (len(b) - 1, len(b) - 8, len(b) // 2):
                dec_inputs.append(b[:c]); origin.append(("mut", r, None)); ctx.count("dec_truncated")
            m = bytearray(b); m[len(b) // 3] ^= 0x10
            dec_inputs.append(bytes(m)); origin.append(("mut", r, None)); ctx.count("dec_single_byte_mutation")
        elif len(b) <= 400 or rnd.random() < 0.1:
            for m in mutations(rnd, b, ctx, per):
                dec_inputs.append(m); origin.append(("mut", r, None))
    for _ in range(ctx.scale(1500, 10000)):
        n = rnd.choice([0, 1, 3, 4, 11, 12, 20, 28, 29, 40, 64, 200])
        k = rnd.random()
        if k < 0.3:
            b = bytes(n)                                        # zeros
        elif k < 0.5:
            b = (rnd.randrange(6)).to_bytes(4, "big") + bytes(rnd.getrandbits(8) for _ in range(n))
        else:
            b = bytes(rnd.getrandbits(8) for _ in range(n))
        dec_inputs.append(b); origin.append(("random", None, None)); ctx.count("dec_random")
    # huge length prefixes (real decoder allocates len bytes before reading)
    for ln in (1 << 16, 1 << 24, (1 << 26)):
        b = (1).to_bytes(4, "big") + bytes(16) + ln.to_bytes(4, "big") + b"abc"
        dec_inputs.append(b); origin.append(("hugelen", None, None)); ctx.count("dec_huge_length")
    dec_cases = ["DEC " + gen.hx(b) for b in dec_inputs]
    impl2 = C.run_impl(dec_cases, ctx.wd, "dec")
    model2 = C.run_model(dec_cases, ctx.wd, "dec")
    core.compare(ctx, "bytes(a)-decode", dec_cases, impl2, model2)
    # the same inputs through a reader that returns 1, 2, 3 or 7 bytes per call (a reader may
    # always return less than it was asked for): the outcome must not depend on it
    pidx = [i for i, b in enumerate(dec_inputs) if len(b) <= 2000]
    pidx = pidx if len(pidx) <= ctx.scale(3000, 30000) else rnd.sample(pidx, ctx.scale(3000, 30000))
    pcases = ["DECP %d %s" % (rnd.choice([1, 2, 3, 7]), gen.hx(dec_inputs[i])) for i in pidx]
    pi_ = C.run_impl(pcases, ctx.wd, "decp")
    pm_ = C.run_model(pcases, ctx.wd, "decp")
    core.compare(ctx, "bytes(a)-decode-piecewise-reader", pcases, pi_, pm_)
    for i, c, a in zip(pidx, pcases, pi_):
        if a != impl2[i]:
            ctx.fail("oracle", "decoding depends on how the reader hands out the bytes: whole `%s` / in pieces `%s`" % (impl2[i][:200], a[:200]),
                     dict(kind="bytes", case=c[:4000], observed=a[:500], expected=impl2[i][:500]))
            break
    ctx.count("dec_piecewise", len(pcases))
    # oracle: the property itself on the implementation
    reenc = []
    nontriv = set()
    for (kind, r, ln), b, line, case in zip(origin, dec_inputs, impl2, dec_cases):
        if line == "panic":
            ctx.fail("oracle", "decoder panicked", dict(kind="bytes", case=case[:4000], observed=line)); continue
        if kind == "valid":
            want = "ok %s | %d" % (r, ln)
            if line != want:
                ctx.fail("oracle", "decode(encode(r)) differs from r or consumed the wrong number of bytes",
                         dict(kind="bytes", case="ENC " + r, observed=line[:2000], expected=want[:2000]))
        if line.startswith("ok "):
            rec, consumed = line[3:].rsplit(" | ", 1)
            reenc.append((rec, b[: int(consumed)], case))
            if int(consumed) > len(b):
                ctx.fail("oracle", "decoder consumed more bytes than exist", dict(kind="bytes", case=case[:4000], observed=line[:500]))
        ctx.count("dec_result_" + line.split(" ", 1)[0])
        nontriv.add((kind, line.split(" ", 1)[0], len(b) > 40))
    # pass 3: every successfully decoded record must re-encode to exactly the consumed bytes
    re_cases = ["ENC " + rec for rec, _, _ in reenc]
    impl3 = C.run_impl(re_cases, ctx.wd, "reenc")
    for (rec, consumed, case), line in zip(reenc, impl3):
        if line.split()[0] != gen.hx(consumed):
            ctx.fail("oracle", "decoded record does not re-encode to the consumed bytes",
                     dict(kind="bytes", case=case[:4000], observed=line[:2000]))
    ctx.k_checks["oracle-roundtrip-canonical-total"] = (not any(f["kind"] == "oracle" for f in ctx.failures), len(dec_cases) + len(re_cases))
    ctx.cov["evaluations"] = len(enc_cases) + len(dec_cases) + len(re_cases)
    ctx.cov["distinct_nontrivial"] = len(set(enc_cases)) + len(set(c for c, (k, _, _) in zip(dec_cases, origin) if k != "valid"))
    ctx.cov["rule"] = ("records: all six kinds, all 32 None/Some combinations of the state record, boundary integers, empty to 10 KB payloads, then seeded random; "
                       "byte strings: every truncation of small encodings, single-byte mutations, rewritten tags, tails, zeros, random bytes, huge length prefixes. "
                       "distinct = distinct case lines; non-trivial = every ENC case plus every non-valid DEC input")
    ctx.cov["samples"] = [enc_cases[0], enc_cases[len(enc_cases) // 2], dec_cases[1][:200], dec_cases[-1][:200]]
    ctx.cov["result_classes_seen"] = sorted("%s/%s/%s" % t for t in nontriv)
    return core.finish(ctx, proof)
