"""Cross-check of the extraction: a sample of the SEQ cases is re-evaluated inside Coq with
vm_compute; the kernel's VM must compute the same final state, read and directory as the
extracted OCaml model."""
import os, subprocess
import common as C

HEADER = """From Coq Require Import List NArith.
From Coq.Strings Require Import Byte.
From RaftLog Require Import Base.Bytes Base.Crc32 Model.Types Model.Codec Model.Cache Model.Core Model.Recover Model.Run.
Import ListNotations.
Definition summary (r : list result * option sys) :=
  match snd r with
  | None => None
  | Some y => Some (m_rs (k_sm (y_core y)),
                    snd (do_read (y_core y) (y_disk y) 0 100000),
                    map (fun f => (f_id f, N.of_nat (length (f_data f)), crc32 (f_data f))) (y_disk y))
  end.
Definition osummary (r : open_res) :=
  let ds := map (fun f => (f_id f, N.of_nat (length (f_data f)), crc32 (f_data f))) in
  match r with
  | OpenOk y => inl (m_rs (k_sm (y_core y)), snd (do_read (y_core y) (y_disk y) 0 100000), ds (y_disk y))
  | OpenErr _ d => inr (ds d)
  end.
"""


def _check(ctx, lines, nsample, tag, shards, timeout):
    exs = C.run_model(lines, ctx.wd, tag + "terms")
    d = os.path.join(ctx.wd, tag)
    os.makedirs(d, exist_ok=True)
    procs = []
    for s in range(shards):
        part = exs[s::shards]
        if not part:
            continue
        f = os.path.join(d, "vm%d.v" % s)
        with open(f, "w") as fh:
            fh.write(HEADER + "\n".join(part) + "\n")
        p = subprocess.Popen(["coqc", "-q", "-noglob", "-Q", os.path.join(C.COQ, "theories"), "RaftLog", f],
                             cwd=d, stdout=subprocess.PIPE, stderr=subprocess.STDOUT, text=True)
        procs.append((p, f))
    fails = []
    for p, f in procs:
        try:
            out, _ = p.communicate(timeout=timeout)
        except subprocess.TimeoutExpired:
            p.kill()
            out = "timeout"
        if p.returncode != 0:
            fails.append("%s: %s" % (os.path.basename(f), out[-600:]))
    return nsample, fails


def run_vm_img(ctx, img_cases, n=24, shards=8, timeout=900):
    """the same for recovery: open_dir on a sample of directory images, inside Coq"""
    sample = sorted([c for c in img_cases if c.startswith("IMG ") and len(c) < 3000], key=len)[-n:]
    if not sample:
        return 0, []
    lines = ["COQIMG %d %s" % (i, c[4:]) for i, c in enumerate(sample)]
    return _check(ctx, lines, len(sample), "vmimg", shards, timeout)


def run_vm(ctx, seq_cases, n=48, shards=8, timeout=900):
    """returns (checked, failures[str])"""
    sample = sorted([c for c in seq_cases if c.startswith("SEQ ") and len(c) < 1500], key=len)[-n:]
    if not sample:
        return 0, []
    lines = ["COQ %d %s" % (i, c[4:]) for i, c in enumerate(sample)]
    return _check(ctx, lines, len(sample), "vm", shards, timeout)


TRACE_HEADER = """From Coq Require Import List NArith.
From Coq.Strings Require Import Byte.
From RaftLog Require Import Base.Bytes Base.Crc32 Model.Types Model.Codec Model.Cache Model.Core Model.Recover Model.Run Model.Sys.
Import ListNotations.
Inductive wstep := WEv (e : zev) | WReopen (cfg : config).
Fixpoint wrun (z : sys2) (ws : list wstep) : option (sys2 * list vis) :=
  match ws with
  | [] => Some (z, [])
  | WEv e :: r =>
    match zstep z e with
    | None => None
    | Some (z1, v1) => match wrun z1 r with None => None | Some (z2, v2) => Some (z2, v1 ++ v2) end
    end
  | WReopen cfg :: r =>
    match open_dir cfg (z_disk z) with OpenOk y => wrun (sys2_of y) r | OpenErr _ _ => None end
  end.
Definition wrun0 (cfg : config) (ws : list wstep) :=
  match zinit cfg [] with Some z0 => wrun z0 ws | None => None end.
Definition notres (v : vis) := match v with VResult _ => false | _ => true end.
Definition tsum1 (r : option (sys2 * list vis)) :=
  match r with None => None | Some (_, vs) => Some (filter notres vs) end.
Definition tsum2 (r : option (sys2 * list vis)) :=
  match r with
  | None => None
  | Some (z, vs) => Some (filter notres vs,
       map (fun f => (f_id f, N.of_nat (length (f_data f)), crc32 (f_data f))) (z_disk z))
  end.
"""


def run_vm_trace(ctx, cases, logs, rep, n=12, shards=8, timeout=900):
    """K-trace witnesses: for a sample of the traces the replay accepted, the run of Model/Sys.v
    that the search found (caller events, worker steps, batch compositions, reopen) is
    re-executed by vm_compute inside Coq; its visible events must be the recorded system calls
    and callbacks and its final directory the recorded one. Returns (checked, failures)."""
    cand = []
    for c, l, r in zip(cases, logs, rep):
        if r.startswith("ok") and "worker-dead" not in r and "open-refused" not in r and len(l) < 6000 \
                and "burst" not in c and "cfault" not in c:
            cfg = c.split("|")[0].replace("TRACE", "").strip()
            cand.append((len(l), cfg, l))
    cand.sort()
    sample = cand[-n:]
    if not sample:
        return 0, []
    lines = ["COQTRACE %d %s | %s" % (i, cfg, l) for i, (_, cfg, l) in enumerate(sample)]
    exs = C.run_model(lines, ctx.wd, "vmtrace-terms")
    exs = [e for e in exs if e.startswith("Example")]
    if not exs:
        return 0, []
    global HEADER
    keep = HEADER
    HEADER = TRACE_HEADER
    try:
        d = os.path.join(ctx.wd, "vmtrace")
        os.makedirs(d, exist_ok=True)
        procs = []
        for s in range(shards):
            part = exs[s::shards]
            if not part:
                continue
            f = os.path.join(d, "vmt%d.v" % s)
            with open(f, "w") as fh:
                fh.write(TRACE_HEADER + "\n".join(part) + "\n")
            p = subprocess.Popen(["coqc", "-q", "-noglob", "-Q", os.path.join(C.COQ, "theories"), "RaftLog", f],
                                 cwd=d, stdout=subprocess.PIPE, stderr=subprocess.STDOUT, text=True)
            procs.append((p, f))
        fails = []
        for p, f in procs:
            try:
                out, _ = p.communicate(timeout=timeout)
            except subprocess.TimeoutExpired:
                p.kill()
                out = "timeout"
            if p.returncode != 0:
                fails.append("%s: %s" % (os.path.basename(f), out[-800:]))
    finally:
        HEADER = keep
    return len(exs), fails
