"""Cross-check of the extraction: a sample of the SEQ cases is re-evaluated inside Coq with
vm_compute; the kernel's VM must compute the same final state, read and directory as the
extracted OCaml model."""
import os, subprocess
import common as C

HEADER = """From Coq Require Import List NArith.
From Coq.Strings Require Import Byte.
From RaftLog Require Import Base.Bytes Base.Crc32 Model.Types Model.Codec Model.Cache Model.Core Model.Recover Model.Run.
Import ListNotations.
Definition summary (r : list result * option sys) :=
  match snd r with
  | None => None
  | Some y => Some (m_rs (k_sm (y_core y)),
                    snd (do_read (y_core y) (y_disk y) 0 100000),
                    map (fun f => (f_id f, N.of_nat (length (f_data f)), crc32 (f_data f))) (y_disk y))
  end.
Definition osummary (r : open_res) :=
  let ds := map (fun f => (f_id f, N.of_nat (length (f_data f)), crc32 (f_data f))) in
  match r with
  | OpenOk y => inl (m_rs (k_sm (y_core y)), snd (do_read (y_core y) (y_disk y) 0 100000), ds (y_disk y))
  | OpenErr _ d => inr (ds d)
  end.
"""


def _check(ctx, lines, nsample, tag, shards, timeout):
    exs = C.run_model(lines, ctx.wd, tag + "terms")
    d = os.path.join(ctx.wd, tag)
    os.makedirs(d, exist_ok=True)
    procs = []
    for s in range(shards):
        part = exs[s::shards]
        if not part:
            continue
        f = os.path.join(d, "vm%d.v" % s)
        with open(f, "w") as fh:
            fh.write(HEADER + "\n".join(part) + "\n")
        p = subprocess.Popen(["coqc", "-q", "-noglob", "-Q", os.path.join(C.COQ, "theories"), "RaftLog", f],
                             cwd=d, stdout=subprocess.PIPE, stderr=subprocess.STDOUT, text=True)
        procs.append((p, f))
    fails = []
    for p, f in procs:
        try:
            out, _ = p.communicate(timeout=timeout)
        except subprocess.TimeoutExpired:
            p.kill()
            out = "timeout"
        if p.returncode != 0:
            fails.append("%s: %s" % (os.path.basename(f), out[-600:]))
    return nsample, fails


def run_vm_img(ctx, img_cases, n=24, shards=8, timeout=900):
    """the same for recovery: open_dir on a sample of directory images, inside Coq"""
    sample = sorted([c for c in img_cases if c.startswith("IMG ") and len(c) < 3000], key=len)[-n:]
    if not sample:
        return 0, []
    lines = ["COQIMG %d %s" % (i, c[4:]) for i, c in enumerate(sample)]
    return _check(ctx, lines, len(sample), "vmimg", shards, timeout)


def run_vm(ctx, seq_cases, n=48, shards=8, timeout=900):
    """returns (checked, failures[str])"""
    sample = sorted([c for c in seq_cases if c.startswith("SEQ ") and len(c) < 1500], key=len)[-n:]
    if not sample:
        return 0, []
    lines = ["COQ %d %s" % (i, c[4:]) for i, c in enumerate(sample)]
    return _check(ctx, lines, len(sample), "vm", shards, timeout)
