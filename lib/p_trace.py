"""K-trace based checks: C04 (flush acknowledgement), C08 (chunk deletion), C03 (crash
safety), C05 (crash recoverability), C07 (reads under cache pressure and worker lag),
C14 (drop quiesces)."""
import os, subprocess
import common as C, core, gen, p_seq, p_recover

core.register("C04", "Props.C04", "theories/Props/C04.vo", [])
core.register("C08", "Props.C08", "theories/Props/C08.vo", [])
core.register("C14", "Props.C14", "theories/Props/C14.vo", [])
core.register("C03", "Props.C03", "theories/Props/C03.vo", [])
core.register("C05", "Props.C05", "theories/Props/C05.vo", [])
core.register("C07", "Props.C07", "theories/Props/C07.vo", [])


# ------------------------------------------------------------------ running traces
def run_traces(cases, wd, tag="trace", procs=12, timeout=1800):
    """run TRACE cases on the implementation, one harness process per shard"""
    n = len(cases)
    if n == 0:
        return []
    procs = max(1, min(procs, n))
    ps = []
    for s in range(procs):
        part = cases[s::procs]
        cf = os.path.join(wd, "%s.%d.cases" % (tag, s))
        of = os.path.join(wd, "%s.%d.out" % (tag, s))
        with open(cf, "w") as fh:
            fh.write("\n".join(part) + "\n")
        p = subprocess.Popen([C.harness_bin(), "trace", cf, of], env=C.ENV, stdout=subprocess.DEVNULL, stderr=subprocess.DEVNULL)
        ps.append((p, of, len(part)))
    outs = []
    for p, of, k in ps:
        try:
            p.wait(timeout=timeout)
        except subprocess.TimeoutExpired:
            p.kill()
        r = open(of).read().split("\n") if os.path.exists(of) else []
        if r and r[-1] == "":
            r.pop()
        r += ["hang"] * (k - len(r))
        outs.append(r)
    res = [None] * n
    for s in range(procs):
        for j, line in enumerate(outs[s]):
            res[s + j * procs] = line
    return res


def replay_on_model(cases, logs, wd, tag="replay"):
    lines = []
    for c, l in zip(cases, logs):
        cfg = c.split("|")[0].replace("TRACE", "").strip()
        lines.append("TRACE %s | %s" % (cfg, l))
    return C.run_model(lines, wd, tag)


def trace_check(ctx, name, cases):
    """run, replay on the model, retry mismatches once (scheduling hiccups are not
    reproducible, real divergences are)"""
    logs = run_traces(cases, ctx.wd, name)
    rep = replay_on_model(cases, logs, ctx.wd, name + "-replay")
    badi = [i for i, r in enumerate(rep) if not r.startswith("ok")]
    if badi:
        again = run_traces([cases[i] for i in badi], ctx.wd, name + "-retry", procs=4)
        rep2 = replay_on_model([cases[i] for i in badi], again, ctx.wd, name + "-retry-replay")
        for i, l2, r2 in zip(badi, again, rep2):
            if r2.startswith("ok"):
                logs[i], rep[i] = l2, r2
                ctx.count("trace_retry_recovered")
    bad = 0
    for i, r in enumerate(rep):
        if not r.startswith("ok"):
            bad += 1
            if bad <= 3:
                ctx.fail("corr", "K-check trace: the recorded trace is not a run of the model",
                         dict(check="trace", case=cases[i][:4000], model_says=r[:1500], trace=logs[i][:4000]))
    ctx.k_checks["trace-" + name] = (bad == 0, len(cases))
    ctx.cov["traces_validated_against_impl"] = ctx.cov.get("traces_validated_against_impl", 0) + len(cases) - bad
    return logs, rep


# ------------------------------------------------------------------ log analysis
class LogView:
    """per-event accounting of what is written / synced / present, from the log alone"""

    def __init__(self, log):
        self.ev = [e.strip() for e in log.split(" ; ")]
        self.written, self.synced, self.present = {}, {}, []
        self.end = 0                      # journal end offset as far as the caller has journalled
        self.flush_U = {}                 # callback id -> journal end at the flush call
        self.flush_nwrites = {}           # callback id -> number of accepted per-record writes before the flush call
        self.nwrites = 0
        self.next_cb = 0
        self.acks = []                    # (cb, ok) in order
        self.problems = []                # (property, text, event index)
        self.snaps = []                   # (event index, files {id: bytes}, synced {id: n}, acked_writes, issued_writes)
        self.last_call = None
        self.acked_writes = 0
        self.unlinks = []
        self.dropped_at = None
        self.walk()

    def walk(self):
        for i, e in enumerate(self.ev):
            t = e.split()
            if not t:
                continue
            if t[0] in ("c", "w") and len(t) > 1:
                k = t[1]
                if k == "create" and t[-1] == "ok":
                    fid = int(t[2])
                    self.written[fid], self.synced[fid] = 0, 0
                    self.present.append(fid)
                    self.present.sort()
                elif k == "write" and t[0] == "c" and t[-1] == "ok":
                    fid = int(t[2])
                    self.written[fid] = self.written.get(fid, 0) + int(t[3])
                    self.end = max(self.end, fid + self.written[fid])
                elif k == "write" and t[0] == "w" and t[-1] == "ok":
                    fid = int(t[2])
                    self.written[fid] = self.written.get(fid, 0) + int(t[3])
                elif k == "sync" and t[-1] == "ok":
                    fid = int(t[2])
                    self.synced[fid] = self.written.get(fid, 0)
                elif k == "fsync" and t[-1] == "ok":
                    fid = int(t[2])
                    self.synced[fid] = self.written.get(fid, 0)
                elif k == "trunc" and t[-1] == "ok":
                    fid = int(t[2])
                    self.written[fid] = int(t[3])
                    self.synced[fid] = min(self.synced.get(fid, 0), int(t[3]))
                elif k == "unlink" and t[-1] == "ok":
                    fid = int(t[2])
                    if t[0] == "w":
                        self.check_unlink(i, fid)
                    if fid in self.present:
                        self.present.remove(fid)
                    self.unlinks.append((i, fid))
                elif k == "call":
                    self.last_call = t[2:]
                    if t[2] == "F":
                        if t[3] == "1":
                            self.flush_U[self.next_cb] = self.end
                            self.flush_nwrites[self.next_cb] = self.nwrites
                            self.next_cb += 1
                elif k == "ret":
                    if self.last_call and self.last_call[0] in "VATPCU" and t[2] == "ok":
                        off, ln = int(t[3]), int(t[4])
                        self.end = max(self.end, off + ln)
                        n = (len(self.last_call) - 1) // 3 if self.last_call[0] == "A" else 1
                        self.nwrites += n
                    self.last_call = None
                elif k == "cb":
                    cb, ok = int(t[2]), t[3] == "ok"
                    self.check_ack(i, cb, ok)
                    self.acks.append((cb, ok))
                    if ok:
                        self.acked_writes = max(self.acked_writes, self.flush_nwrites.get(cb, 0))
                elif k == "snap":
                    files = dict(p_recover.parse_disk("disk " + e.split("snap disk", 1)[1]))
                    self.snaps.append((i, files, dict(self.synced), self.acked_writes, self.nwrites))
                elif k == "dropped":
                    self.dropped_at = i
                elif k == "opened" and i > 0:
                    self.dropped_at = None
                if t[0] == "w" and self.dropped_at is not None and k in ("write", "sync", "unlink", "cb"):
                    self.problems.append(("C14", "the dropped store's worker acted after drop returned: " + e, i))

    def durable_upto(self, U):
        """every journal byte below U that lies in a present file is within its synced prefix"""
        ps = sorted(self.present)
        for j, fid in enumerate(ps):
            if fid >= U:
                continue
            lim = min(U, ps[j + 1]) if j + 1 < len(ps) else U
            if fid + self.synced.get(fid, 0) < lim:
                return "file %d: synced %d bytes, needs %d" % (fid, self.synced.get(fid, 0), lim - fid)
        return None

    def check_ack(self, i, cb, ok):
        if any(c == cb for c, _ in self.acks):
            self.problems.append(("C04", "callback %d invoked twice" % cb, i))
        if self.acks and cb < self.acks[-1][0]:
            self.problems.append(("C04", "callback %d fired after callback %d" % (cb, self.acks[-1][0]), i))
        if ok:
            why = self.durable_upto(self.flush_U.get(cb, 0))
            if why:
                self.problems.append(("C04", "callback %d reported success before everything journalled before its flush was written and synced (%s)" % (cb, why), i))

    def check_unlink(self, i, fid):
        if self.present and fid != min(self.present):
            self.problems.append(("C08", "chunk file %d deleted while the older file %d is still present" % (fid, min(self.present)), i))


def analyse(ctx, prop, cases, logs, fault_free):
    bad = 0
    views = []
    for c, l in zip(cases, logs):
        if l in ("hang", "harness-panic"):
            ctx.fail("corr", "the harness could not complete the trace: " + l, dict(check="trace", case=c[:3000]))
            views.append(None)
            continue
        v = LogView(l)
        views.append(v)
        for (p, text, i) in v.problems:
            if p == prop:
                bad += 1
                if bad <= 3:
                    ctx.fail("oracle", "%s oracle: %s" % (prop, text), dict(kind="trace", case=c[:4000], at_event=i, trace=l[:5000]))
    return views, bad


# ------------------------------------------------------------------ schedule generation
def gen_schedule(rnd, nops, cfg, faults=0, snaps=False, small_cache=False, reads=False, max_batch=3, purge_heavy=False):
    ops, st, sim = gen.gen_history(rnd, nops, p_reject=0.05, reads=reads, max_batch=max_batch,
                                   flush_every=rnd.choice([0.2, 0.35, 0.5]))
    items = []
    hold = rnd.random() < 0.5          # hold the worker: requests pile up and are batched
    for o in ops:
        items.append(o)
        r = rnd.random()
        if o.startswith("F"):
            if hold and rnd.random() < 0.6:
                pass                    # keep the worker where it is: more requests for the next batch
            else:
                items.append(rnd.choice(["w 1", "w 2", "w 3", "w 5", "wi"]))
        elif r < 0.25:
            items.append(rnd.choice(["w 1", "w 1", "w 2", "wi"]))
        if snaps and rnd.random() < 0.35:
            items.append("snap")
        if reads and rnd.random() < 0.3:
            lo = max(0, sim.next_index() - rnd.randint(0, 15))
            items.append(rnd.choice(["R %d %d" % (lo, lo + rnd.randint(1, 20)), "D", "R 0 100000"]))
        if small_cache and rnd.random() < 0.1:
            items.append("E")
    for _ in range(faults):
        pos = rnd.randrange(len(items) + 1)
        items.insert(pos, "fault %s %d" % (rnd.choice(["sync", "sync", "sync", "write", "unlink"]), rnd.randint(0, 3)))
    items += ["F 1", "wi"]
    if snaps:
        items.append("snap")
    return "TRACE %s | %s" % (cfg, " ; ".join(items)), st


def run_C04(ctx):
    proof = core.proof_stage("C04")
    core.builds()
    rnd = ctx.rnd
    n = ctx.scale(120, 1200)
    cases, ff = [], []
    for i in range(n):
        cfg = gen.rand_cfg(rnd, big_cache=(rnd.random() < 0.5))
        faults = 0 if i % 3 else rnd.choice([1, 1, 2, 3])
        line, st = gen_schedule(rnd, rnd.randint(4, ctx.scale(30, 60)), cfg, faults=faults)
        for k, v in st.items():
            ctx.count("ops_" + k, v)
        ctx.count("traces_with_faults" if faults else "traces_fault_free")
        cases.append(line)
        ff.append(faults == 0)
    cases = p_seq.corpus("C04") + cases
    ff = [("fault " not in c) for c in cases]
    logs, rep = trace_check(ctx, "c04", cases)
    views, bad = analyse(ctx, "C04", cases, logs, ff)
    # exactly once without failures
    for c, v, f in zip(cases, views, ff):
        if v is None or not f:
            continue
        got = [cb for cb, ok in v.acks]
        if got != list(range(v.next_cb)) or not all(ok for _, ok in v.acks):
            bad += 1
            ctx.fail("oracle", "C04 oracle: without failures every flush callback must fire exactly once with Ok: requested %d, fired %s" % (v.next_cb, v.acks[:20]),
                     dict(kind="trace", case=c[:4000]))
    nacks = sum(len(v.acks) for v in views if v)
    ctx.count("callbacks_checked", nacks)
    ctx.count("failed_syncs_injected", sum(l.count("sync") and l.count(" fail") for l in logs))
    ctx.k_checks["oracle-ack-after-sync-once-in-order"] = (bad == 0, nacks)
    ctx.cov["evaluations"] = len(cases)
    ctx.cov["distinct_nontrivial"] = len(set(c for c, l in zip(cases, logs) if " w cb " in l))
    ctx.cov["rule"] = "gated schedules: caller histories (multi-entry appends across rotations included) interleaved with worker steps at system-call granularity, requests piled up for batching, 1-3 injected EIO failures of write/fdatasync/unlink in a third of the traces; distinct by case line; non-trivial = at least one callback fired"
    ctx.cov["samples"] = [cases[0][:1200], logs[0][:1500]]
    return core.finish(ctx, proof)
