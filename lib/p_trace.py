"""K-trace based checks: C04 (flush acknowledgement), C08 (chunk deletion), C03 (crash
safety), C05 (crash recoverability), C07 (reads under cache pressure and worker lag),
C14 (drop quiesces)."""
import os, subprocess
import common as C, core, gen, p_seq, p_recover

core.register("C04", "Props.C04", "theories/Props/C04.vo",
              ["C04_ack_after_sync", "C04_synced_le_written", "C04_once_in_order", "C04_exactly_once",
               "C04_ack_after_sync_from", "C04_once_in_order_from", "C04_exactly_once_from", "C04_from_nil",
               "C04_restart_needs_older_synced", "C04_from_nonvacuous"])
core.register("C08", "Props.C08", "theories/Props/C08.vo",
              ["C08_removed_after_durable", "C08_oldest_first", "C08_liveness", "C08_pop_obsolete_spec_partial",
               "C08_only_dead_partial", "C08_removed_after_durable_from", "C08_oldest_first_from", "C08_liveness_from",
               "C08_restart_needs_older_synced"])
core.register("C14", "Props.C14", "theories/Props/C14.vo",
              ["C14_quiescent", "C14_drain_terminates", "C14_reopen_after_drop", "C14_reopen_after_drop_no_truncate",
               "C14_flushed_dominates_acked", "C14_reopen_nonvacuous", "C14_quiescent_from", "C14_drain_terminates_from",
               "C14_next_instance_contracts", "C14_incarnations_contracts", "C14_next_instance_starts",
               "C14_idle_worker_may_track_two_files", "C14_two_incarnations"])
core.register("C03", "Props.C03", "theories/Props/C03.vo", ["C03_prefix", "C03_nonvacuous", "C03_nonvacuous_purged"])
core.register("C05", "Props.C05", "theories/Props/C05.vo",
              ["C05_refuted_gap", "C05_recovers_outside_known", "C05_process_crash_is_image",
               "C05_recovers_outside_known_from", "C05_open_dir_whole", "C05_from_nonvacuous", "C05_reboot_next_instance",
               "C05_crash_image_chained_from", "C05_recovers_again", "C05_recovers_outside_known_from_any_marks",
               "C05_crash_image_chained_any", "C05_recovers_again_any"])
core.register("C07", "Props.C07", "theories/Props/C07.vo",
              ["C07_refuted_live", "C07_reads_total_outside_known", "C07_boundary_in_force_is_not_enough",
               "C07_reads_total_outside_known_L2", "C07_restart_reads_total", "C07_restart_continue", "C07_restart_refuted",
               "C07_restart_reads_total_strong", "C07_restarts_reads_total", "C07_restarts_nonvacuous"])


# ------------------------------------------------------------------ running traces
def run_traces(cases, wd, tag="trace", procs=12, timeout=1800):
    """run TRACE cases on the implementation, one harness process per shard"""
    n = len(cases)
    if n == 0:
        return []
    procs = max(1, min(procs, n))
    ps = []
    for s in range(procs):
        part = cases[s::procs]
        cf = os.path.join(wd, "%s.%d.cases" % (tag, s))
        of = os.path.join(wd, "%s.%d.out" % (tag, s))
        with open(cf, "w") as fh:
            fh.write("\n".join(part) + "\n")
        p = subprocess.Popen([C.harness_bin(), "trace", cf, of], env=C.ENV, stdout=subprocess.DEVNULL, stderr=subprocess.DEVNULL)
        ps.append((p, of, len(part)))
    outs = []
    for p, of, k in ps:
        try:
            p.wait(timeout=timeout)
        except subprocess.TimeoutExpired:
            p.kill()
        r = open(of).read().split("\n") if os.path.exists(of) else []
        if r and r[-1] == "":
            r.pop()
        r += ["hang"] * (k - len(r))
        outs.append(r)
    res = [None] * n
    for s in range(procs):
        for j, line in enumerate(outs[s]):
            res[s + j * procs] = line
    return res


def replay_on_model(cases, logs, wd, tag="replay"):
    lines = []
    for c, l in zip(cases, logs):
        cfg = c.split("|")[0].replace("TRACE", "").strip()
        lines.append("TRACE %s | %s" % (cfg, l))
    return C.run_model(lines, wd, tag)


def trace_check(ctx, name, cases):
    """run, replay on the model, retry mismatches once (scheduling hiccups are not
    reproducible, real divergences are)"""
    logs = run_traces(cases, ctx.wd, name)
    rep = replay_on_model(cases, logs, ctx.wd, name + "-replay")
    badi = [i for i, r in enumerate(rep) if not r.startswith("ok")]
    if badi:
        again = run_traces([cases[i] for i in badi], ctx.wd, name + "-retry", procs=4)
        rep2 = replay_on_model([cases[i] for i in badi], again, ctx.wd, name + "-retry-replay")
        for i, l2, r2 in zip(badi, again, rep2):
            if r2.startswith("ok"):
                logs[i], rep[i] = l2, r2
                ctx.count("trace_retry_recovered")
    bad = 0
    for i, r in enumerate(rep):
        if not r.startswith("ok"):
            bad += 1
            if bad <= 3:
                ctx.fail("corr", "K-check trace: the recorded trace is not a run of the model",
                         dict(check="trace", case=cases[i][:4000], model_says=r[:1500], trace=logs[i][:4000]))
    ctx.k_checks["trace-" + name] = (bad == 0, len(cases))
    # witness cross-check: the run of Model/Sys.v that the replay search found for a sample of
    # the accepted traces is re-executed by vm_compute inside Coq (kernel VM, not the extracted
    # code); visible events and the final directory must be the recorded ones
    import vmcheck
    nvm, vmf = vmcheck.run_vm_trace(ctx, cases, logs, rep, n=ctx.scale(6, 40))
    for m in vmf[:2]:
        ctx.fail("corr", "trace witness cross-check: the run found by the replay search is not accepted by vm_compute on Model/Sys.v",
                 dict(check="vm-trace", detail=m))
    if nvm:
        old = ctx.k_checks.get("trace-witness-vs-vm_compute", (True, 0))
        ctx.k_checks["trace-witness-vs-vm_compute"] = (old[0] and not vmf, old[1] + nvm)
    ctx.cov["traces_validated_against_impl"] = ctx.cov.get("traces_validated_against_impl", 0) + len(cases) - bad
    return logs, rep


# ------------------------------------------------------------------ log analysis
class LogView:
    """per-event accounting of what is written / synced / present, from the log alone"""

    def __init__(self, log, fault_free=False):
        self.fault_free = fault_free
        self.ev = [e.strip() for e in log.split(" ; ")]
        self.written, self.synced, self.present = {}, {}, []
        self.end = 0                      # journal end offset as far as the caller has journalled
        self.flush_U = {}                 # callback id -> journal end at the flush call
        self.flush_nwrites = {}           # callback id -> number of accepted per-record writes before the flush call
        self.nwrites = 0
        self.next_cb = 0
        self.acks = []                    # (cb, ok) in order
        self.problems = []                # (property, text, event index)
        self.snaps = []                   # (event index, files {id: bytes}, synced {id: n}, acked_writes, issued_writes)
        self.last_call = None
        self.acked_writes = 0
        self.unlinks = []
        self.dropped_at = None
        self.unlocked_at = None
        self.refused_cbs = set()
        self.end_at_call = 0
        self.snap_lock = {}               # event index of a snapshot -> content of the LOCK file then
        self.inflight = 0
        self.purges = []                  # accepted purges: (upto log id, journal offset just behind the purge record)
        self.closing_last = {}            # chunk id -> last log id recorded when it was closed (from stat results)
        self.live = None                  # liveness of C08: [upto, flushed?, idle after that flush?] while no write is accepted
        self.walk()

    def walk(self):
        for i, e in enumerate(self.ev):
            t = e.split()
            if not t:
                continue
            if t[0] in ("c", "w") and len(t) > 1:
                k = t[1]
                if k == "create" and t[-1] == "ok":
                    fid = int(t[2])
                    self.written[fid], self.synced[fid] = 0, 0
                    self.present.append(fid)
                    self.present.sort()
                elif k == "write" and t[0] == "c" and t[-1] == "ok":
                    fid = int(t[2])
                    self.written[fid] = self.written.get(fid, 0) + int(t[3])
                    self.end = max(self.end, fid + self.written[fid])
                elif k == "write" and t[0] == "w" and t[-1] == "ok":
                    fid = int(t[2])
                    self.written[fid] = self.written.get(fid, 0) + int(t[3])
                elif k == "sync" and t[-1] == "ok":
                    fid = int(t[2])
                    self.synced[fid] = self.written.get(fid, 0)
                elif k == "fsync" and t[-1] == "ok":
                    fid = int(t[2])
                    self.synced[fid] = self.written.get(fid, 0)
                elif k == "trunc" and t[-1] == "ok":
                    fid = int(t[2])
                    self.written[fid] = int(t[3])
                    self.synced[fid] = min(self.synced.get(fid, 0), int(t[3]))
                elif k == "unlink" and t[-1] == "ok":
                    fid = int(t[2])
                    if t[0] == "w":
                        self.check_unlink(i, fid)
                    if fid in self.present:
                        self.present.remove(fid)
                    self.unlinks.append((i, fid))
                elif k == "idle":
                    if self.live and self.live[1]:
                        self.live[2] = True
                elif k == "call":
                    self.last_call = t[2:]
                    self.end_at_call = self.end
                    # records the call in progress may already have journalled when a snapshot
                    # is taken inside it
                    self.inflight = ((len(t) - 3) // 3 if t[2] == "A" else 1) if t[2] in ("V", "A", "T", "P", "C", "U") else 0
                    if t[2] == "F" and self.live:
                        self.live[1] = True
                    if t[2] == "F":
                        if t[3] == "1":
                            self.flush_U[self.next_cb] = self.end
                            self.flush_nwrites[self.next_cb] = self.nwrites
                            self.next_cb += 1
                elif k == "ret":
                    if self.last_call and self.last_call[0] == "F" and self.last_call[1] == "1" and t[2] != "unit":
                        self.refused_cbs.add(self.next_cb - 1)      # the flush call itself failed: no callback owed
                    if self.last_call and t[2] == "stat":
                        self.see_stat(i, e)
                    if self.last_call and self.last_call[0] in "VATPCU" and t[2] == "ok":
                        self.live = None
                    if self.last_call and self.last_call[0] == "P" and t[2] == "ok":
                        up = (int(self.last_call[1]), int(self.last_call[2]))
                        self.purges.append((up, int(t[3]) + int(t[4])))
                        # a purge at or below the current purge point writes no record and
                        # requests nothing (its result is the previous record's segment)
                        if int(t[3]) + int(t[4]) > self.end_at_call:
                            self.live = [up, False, False]
                    if self.last_call and self.last_call[0] in "VATPCU" and t[2] == "ok":
                        off, ln = int(t[3]), int(t[4])
                        self.end = max(self.end, off + ln)
                        n = (len(self.last_call) - 1) // 3 if self.last_call[0] == "A" else 1
                        self.nwrites += n
                    self.last_call = None
                    self.inflight = 0
                elif k == "cb":
                    cb, ok = int(t[2]), t[3] == "ok"
                    self.check_ack(i, cb, ok)
                    self.acks.append((cb, ok))
                    if ok:
                        self.acked_writes = max(self.acked_writes, self.flush_nwrites.get(cb, 0))
                elif k == "snap":
                    files = dict(p_recover.parse_disk("disk " + e.split("snap disk", 1)[1]))
                    self.snaps.append((i, files, dict(self.synced), self.acked_writes, self.nwrites + self.inflight))
                elif k == "lockfile":
                    if self.snaps:
                        self.snap_lock[self.snaps[-1][0]] = t[2] if len(t) > 2 else "x"
                elif k == "flock" and t[2] == "unlock":
                    self.unlocked_at = i
                elif k == "dropped":
                    self.dropped_at = i
                elif k == "opened" and i > 0:
                    self.dropped_at = None
                    self.unlocked_at = None
                    if any(x == "c drop" for x in self.ev[:i]):
                        # a new incarnation numbers its callbacks from 0 again; what earlier
                        # incarnations had acknowledged stays acknowledged
                        self.incarnation_acks = getattr(self, "incarnation_acks", []) + [(self.next_cb, list(self.acks))]
                        self.next_cb = 0
                        self.flush_U, self.flush_nwrites = {}, {}
                        self.acks = []
                        self.refused_cbs = set()
                if t[0] == "w" and self.unlocked_at is not None and k in ("write", "sync", "unlink"):
                    self.problems.append(("C14", "the directory lock was released while the store's worker was still changing the directory: " + e, i))
                    self.unlocked_at = None
                if t[0] == "w" and self.dropped_at is not None and k in ("write", "sync", "unlink", "cb"):
                    self.problems.append(("C14", "the dropped store's worker acted after drop returned: " + e, i))

    def durable_upto(self, U):
        """every journal byte below U that lies in a present file is within its synced prefix"""
        ps = sorted(self.present)
        for j, fid in enumerate(ps):
            if fid >= U:
                continue
            lim = min(U, ps[j + 1]) if j + 1 < len(ps) else U
            if fid + self.synced.get(fid, 0) < lim:
                return "file %d: synced %d bytes, needs %d" % (fid, self.synced.get(fid, 0), lim - fid)
        return None

    def check_ack(self, i, cb, ok):
        if any(c == cb for c, _ in self.acks):
            self.problems.append(("C04", "callback %d invoked twice" % cb, i))
        if self.acks and cb < self.acks[-1][0]:
            self.problems.append(("C04", "callback %d fired after callback %d" % (cb, self.acks[-1][0]), i))
        if ok:
            why = self.durable_upto(self.flush_U.get(cb, 0))
            if why:
                self.problems.append(("C04", "callback %d reported success before everything journalled before its flush was written and synced (%s)" % (cb, why), i))

    def check_unlink(self, i, fid):
        if self.present and fid != min(self.present):
            self.problems.append(("C08", "chunk file %d deleted while the older file %d is still present" % (fid, min(self.present)), i))
        # the purge that made it obsolete must be accepted and durably recorded in the files that remain
        rest = LogViewRest(self, fid)
        durable = [up for (up, endoff) in self.purges if rest.durable_upto(endoff) is None]
        if not durable:
            self.problems.append(("C08", "chunk file %d deleted although no accepted purge is durably recorded (accepted purges: %s)" % (fid, self.purges[-3:]), i))
        elif fid in self.closing_last and self.closing_last[fid] is not None and self.closing_last[fid] > max(durable):
            self.problems.append(("C08", "chunk file %d deleted although it was closed with last log id %s, above every durably recorded purge point (%s)" % (fid, self.closing_last[fid], max(durable)), i))

    def see_stat(self, i, e):
        import re
        m = re.search(r"closed=\[(.*?)\] open=", e)
        if not m:
            return
        chunks = []
        for cm in re.finditer(r"(\d+),\d+,\d+,\d+,\d+,\{([^}]*)\}", m.group(1)):
            st = cm.group(2).split()
            last = None if st[1] == "-" else tuple(int(x) for x in st[1].split(":"))
            chunks.append((int(cm.group(1)), last))
            self.closing_last[int(cm.group(1))] = last
        if self.live and self.live[2] and self.fault_free:
            # every file still on disk is one the store still tracks
            mo = re.search(r"\] open=(\d+),", e)
            tracked_ids = set(c for c, _ in chunks) | ({int(mo.group(1))} if mo else set())
            left = [f for f in self.present if f not in tracked_ids]
            if left and mo:
                self.problems.append(("C08", "the purge up to %s was flushed and the worker is idle, but the obsolete chunk file(s) %s are still on disk" % (self.live[0], left), i))
            up = self.live[0]
            # judged on the oldest closed chunk only: files go oldest-first, so a younger chunk
            # behind one that must stay is rightly kept
            for cid, last in chunks[:1]:
                if last is None or last <= up:
                    self.problems.append(("C08", "the purge up to %s was flushed and the worker is idle, but closed chunk %d (closing last log id %s) holding nothing above the purge point is still there" % (up, cid, last), i))


class LogViewRest:
    """the files that remain once `gone` is deleted (for durable_upto)"""
    def __init__(self, v, gone):
        self.present = [f for f in v.present if f != gone]
        self.synced = v.synced
    durable_upto = LogView.durable_upto


def analyse(ctx, prop, cases, logs, fault_free):
    bad = 0
    views = []
    for c, l in zip(cases, logs):
        if l in ("hang", "harness-panic"):
            ctx.fail("corr", "the harness could not complete the trace: " + l, dict(check="trace", case=c[:3000]))
            views.append(None)
            continue
        v = LogView(l, fault_free=("fault " not in c))
        views.append(v)
        for (p, text, i) in v.problems:
            if p == prop:
                bad += 1
                if bad <= 3:
                    ctx.fail("oracle", "%s oracle: %s" % (prop, text), dict(kind="trace", case=c[:4000], at_event=i, trace=l[:5000]))
    return views, bad


# ------------------------------------------------------------------ schedule generation
def gen_schedule(rnd, nops, cfg, faults=0, snaps=False, small_cache=False, reads=False, max_batch=3, purge_heavy=False, autosnap=False):
    ops, st, sim = gen.gen_history(rnd, nops, p_reject=0.08, reads=reads, max_batch=max_batch,
                                   flush_every=rnd.choice([0.2, 0.35, 0.5]), index_limit_rejects=True)
    items = []
    hold = rnd.random() < 0.5          # hold the worker: requests pile up and are batched
    for o in ops:
        items.append(o)
        r = rnd.random()
        if o.startswith("P") and faults == 0 and rnd.random() < 0.65:
            # purge, flush, worker idle, look: the liveness clause of C08 is judged here
            items += [rnd.choice(["F 1", "F 0"]), "wi", "G"]
        elif o.startswith("F"):
            if hold and rnd.random() < 0.6:
                pass                    # keep the worker where it is: more requests for the next batch
            else:
                items.append(rnd.choice(["w 1", "w 2", "w 3", "w 5", "wi"]))
        elif r < 0.25:
            items.append(rnd.choice(["w 1", "w 1", "w 2", "wi"]))
        if snaps and rnd.random() < 0.35:
            items.append("snap")
        if reads and rnd.random() < 0.3:
            lo = max(0, sim.next_index() - rnd.randint(0, 15))
            items.append(rnd.choice(["R %d %d" % (lo, lo + rnd.randint(1, 20)), "D", "R 0 100000"]))
        if small_cache and rnd.random() < 0.1:
            items.append("E")
    for _ in range(faults):
        pos = rnd.randrange(len(items) + 1)
        items.insert(pos, "fault %s %d" % (rnd.choice(["sync", "sync", "sync", "write", "unlink"]), rnd.randint(0, 3)))
    items += ["F 1", "wi"]
    if snaps:
        items.append("snap")
    if snaps and faults == 0:
        # the directory (lock file included) copied and opened while its owner is still alive
        for _ in range(rnd.randint(0, 2)):
            items.insert(rnd.randrange(1, len(items) + 1), "copyopen")
    if autosnap:
        # a snapshot after every create / write of the caller thread: crash points inside calls
        items.insert(0, "autosnap")
    return "TRACE %s | %s" % (cfg, " ; ".join(items)), st


def second_incarnation_case(rnd, cfg, nops1, nops2, faults=0, snaps=False, autosnap=False):
    """a history, flushed and acknowledged; the store is dropped and the directory opened again
    (possibly under other limits); the history goes on in the second incarnation, where the
    worker is gated, faults are injected and snapshots are taken"""
    ops, st, sim = gen.gen_history(rnd, nops1 + nops2, p_reject=0.05, reads=False, max_batch=2,
                                   flush_every=rnd.choice([0.2, 0.4]), index_limit_rejects=False)
    cut = min(len(ops), nops1)
    items = list(ops[:cut]) + ["F 1", "wi", "drop"]
    cfg2 = cfg if rnd.random() < 0.5 else gen.rand_cfg(rnd, big_cache=True, trunc=1)
    items.append("open " + cfg2)
    if autosnap:
        items.append("autosnap")
    for o in ops[cut:]:
        items.append(o)
        if o.startswith("F") or rnd.random() < 0.3:
            items.append(rnd.choice(["w 1", "w 2", "w 3", "wi"]))
        if snaps and rnd.random() < 0.4:
            items.append("snap")
    for _ in range(faults):
        pos = rnd.randrange(cut + 4, len(items) + 1)
        items.insert(pos, "fault %s %d" % (rnd.choice(["sync", "sync", "write", "unlink"]), rnd.randint(0, 2)))
    items += ["F 1", "wi"]
    if snaps:
        items.append("snap")
    return "TRACE %s | %s" % (cfg, " ; ".join((["autosnap"] if False else []) + items))


def failed_rotation_cases(rnd, n, tail):
    """schedules in which the creation of the next chunk file fails on the caller thread (disk
    full) while journalled bytes are pending; `tail` = items appended after the recovery writes"""
    out = []
    for j in range(n):
        recs = rnd.choice([4, 5, 6])              # the head snapshot counts: recs - 1 entries fill a chunk
        cfg = "100000 1073741824 %d 1073741824 1 64" % recs
        items = ["A 1 0 x00", "F 1", "wi"]
        for i in range(1, recs - 2):
            items.append("A 1 %d x%02x" % (i, i))
        items += ["cfault create 1", "A 1 %d x77" % (recs - 2)]          # fills the chunk: the rotation fails
        items += [rnd.choice(["F 1 ; wi", "F 1 ; w 1 ; wi", "F 0 ; wi ; F 1 ; wi"]), "A 1 %d x78" % (recs - 1), "F 1", "wi"]
        out.append("TRACE %s | %s" % (cfg, " ; ".join(items + [t.replace("CFG", cfg) for t in tail])))
    return out


def run_C04(ctx):
    proof = core.proof_stage("C04")
    core.builds()
    rnd = ctx.rnd
    n = ctx.scale(120, 1200)
    cases, ff = [], []
    for i in range(n):
        cfg = gen.rand_cfg(rnd, big_cache=(rnd.random() < 0.5))
        faults = 0 if i % 3 else rnd.choice([1, 1, 2, 3])
        line, st = gen_schedule(rnd, rnd.randint(4, ctx.scale(30, 60)), cfg, faults=faults)
        for k, v in st.items():
            ctx.count("ops_" + k, v)
        ctx.count("traces_with_faults" if faults else "traces_fault_free")
        cases.append(line)
        ff.append(faults == 0)
    # the bounded request channel (1024) filled while the worker is held: the caller blocks
    # inside flush with data pending, the worker is released event by event
    for j in range(ctx.scale(1, 4)):
        recs = rnd.choice([100000, 100000, 500]) if j else 100000
        n = 1024 + rnd.randint(10, 34)
        m = n      # every flush carries data (a batch of 1025 writes): the look-ahead of the replay then pins the batch compositions
        cases.append("TRACE 100000 1073741824 %d 1073741824 1 64 | A 1 0 x61 ; F 1 ; w 1 ; burst %d %d ; wi ; A 1 %d x62 ; F 1 ; wi ; G ; snap"
                     % (recs, n, m, m + 1))
        ctx.count("channel_full_bursts")
    # a batch of 10.5 MiB: seven flushes of 1.5 MiB each pile up while the worker is held
    for j in range(ctx.scale(1, 2)):
        items = ["A 1 0 x61", "F 1", "w 1"]
        for i in range(1, 8):
            items += ["A 1 %d %s" % (i, gen.hx(bytes((k * 7 + i + j) & 0xFF for k in range(1536 * 1024)))), "F 1"]
        cases.append("TRACE 100000 1073741824 100000 1073741824 1 64 | " + " ; ".join(items + ["wi", "G"]))
        ctx.count("multi_megabyte_batches")
    # acknowledgements of a store RE-OPENED on an existing directory (second incarnation): its worker
    # starts with the re-used (or fresh) newest file only; with and without injected failures
    for j in range(ctx.scale(16, 120)):
        cfg = gen.rand_cfg(rnd, big_cache=(rnd.random() < 0.5))
        cases.append(second_incarnation_case(rnd, cfg, rnd.randint(2, 12), rnd.randint(3, 14), faults=(0 if j % 2 else rnd.choice([1, 2]))))
        ctx.count("second_incarnation_traces")
    cases = p_seq.corpus("C04") + cases
    ff = [("fault " not in c) for c in cases]
    logs, rep = trace_check(ctx, "c04", cases)
    views, bad = analyse(ctx, "C04", cases, logs, ff)
    # a chunk rotation that fails on the caller thread (the creation of the next chunk file
    # fails: disk full) while journalled bytes are still pending. The model has no caller-side
    # I/O failure, so these traces are judged by the trace predicates alone: a later
    # callback may report success only if everything accepted before its flush is durable.
    ccases = failed_rotation_cases(rnd, ctx.scale(12, 80), ["G"])
    clogs = run_traces(ccases, ctx.wd, "c04c")
    cviews, cbad = analyse(ctx, "C04", ccases, clogs, [True] * len(ccases))
    bad += cbad
    ctx.count("failed_rotation_traces", len(ccases))
    # exactly once without failures
    for c, v, f in zip(cases, views, ff):
        if v is None or not f:
            continue
        got = [cb for cb, ok in v.acks]
        # (for a trace with a restart: the last incarnation; the earlier ones ended with flush + idle)
        for ncb, acks0 in getattr(v, "incarnation_acks", []):
            if [cb for cb, ok in acks0] != list(range(ncb)) and not v.refused_cbs:
                got = None
        if got != [cb for cb in range(v.next_cb) if cb not in v.refused_cbs] or not all(ok for _, ok in v.acks):
            bad += 1
            ctx.fail("oracle", "C04 oracle: without failures every flush callback must fire exactly once with Ok: requested %d, fired %s" % (v.next_cb, v.acks[:20]),
                     dict(kind="trace", case=c[:4000]))
    # the crate's own callback type (impl Callback for SyncSender): one bounded channel shared by
    # all flushes of a case, drained only after every flush has been issued, so the worker meets a
    # full (or rendezvous) channel when it delivers; every acknowledgement must still arrive, once
    sscases = ["SSACK %d %d %d" % (cap, k, mr) for cap in (0, 1, 2, 8) for k, mr in ((1, 5), (2, 100), (8, 3), (rnd.randint(9, 40), rnd.choice([1, 2, 7, 100000])))]
    cf, of = os.path.join(ctx.wd, "ssack.cases"), os.path.join(ctx.wd, "ssack.out")
    open(cf, "w").write("\n".join(sscases) + "\n")
    if os.path.exists(of):
        os.remove(of)
    try:
        subprocess.run([C.harness_bin(), "ssack", cf, of], env=C.ENV, stdout=subprocess.DEVNULL, stderr=subprocess.DEVNULL, timeout=600)
    except subprocess.TimeoutExpired:
        pass
    ssout = open(of).read().split("\n") if os.path.exists(of) else []
    ssbad = 0
    for i, c in enumerate(sscases):
        k = int(c.split()[2])
        r = ssout[i] if i < len(ssout) else "hang"
        if r != "ssack got=%d ok=%d" % (k, k):
            ssbad += 1
            bad += 1
            ctx.fail("oracle", "C04 oracle: %d flushes acknowledged through SyncSender callbacks on one shared bounded channel, no failure injected: every callback must arrive exactly once with Ok; observed `%s`" % (k, r),
                     dict(kind="ssack", case=c, observed=r))
    ctx.k_checks["oracle-syncsender-callbacks-exactly-once"] = (ssbad == 0, len(sscases))
    ctx.count("syncsender_callback_cases", len(sscases))
    nacks = sum(len(v.acks) for v in views if v)
    ctx.count("callbacks_checked", nacks)
    ctx.count("failed_syncs_injected", sum(l.count("sync") and l.count(" fail") for l in logs))
    ctx.k_checks["oracle-ack-after-sync-once-in-order"] = (bad == 0, nacks)
    ctx.cov["evaluations"] = len(cases)
    ctx.cov["distinct_nontrivial"] = len(set(c for c, l in zip(cases, logs) if " w cb " in l))
    ctx.cov["rule"] = "gated schedules: caller histories (multi-entry appends across rotations included) interleaved with worker steps at system-call granularity, requests piled up for batching, 1-3 injected EIO failures of write/fdatasync/unlink in a third of the traces; distinct by case line; non-trivial = at least one callback fired"
    ctx.cov["samples"] = [cases[0][:1200], logs[0][:1500]]
    return core.finish(ctx, proof)


# ------------------------------------------------------------------ crash images from snapshots
# fields: 0 opened, 1 stat, 2 read, 3 iteration, 4 drain, 5 read after drain, 6 append, 7 vote, 8 flush, 9 idle, 10 restart, -2 stat, -1 read
IMG_AFTER = "G ; R 0 100000 ; D ; E ; R 0 100000 ; A ; V 4000000000 1 ; F 1 ; I ; X 100000 1073741824 4 1073741824 1 64 ; G ; R 0 100000"


def writes_of_case(case, log):
    """the accepted per-record writes of a trace, in order, as single-record SEQ ops"""
    ev = [e.strip() for e in log.split(" ; ")]
    out, last = [], None
    for e in ev:
        if e.startswith("c call "):
            last = e[7:]
        elif e.startswith("c ret ") and last is not None:
            t = last.split()
            if t[0] in "VTPCU" and e.startswith("c ret ok"):
                out.append(last)
            elif t[0] == "A" and e.startswith("c ret ok"):
                ents = t[1:]
                for k in range(0, len(ents), 3):
                    out.append("A %s %s %s" % (ents[k], ents[k + 1], ents[k + 2]))
            elif t[0] == "A" and e.startswith("c ret err") and len(t) > 4:
                out.append(("PARTIAL", last))          # a batch: its first entries may have been accepted
            last = None
    return out


def spec_prefix_states(ctx, traces):
    """for every trace: the reference log's (state, full read) after each prefix of its
    accepted writes, computed by the extracted specification"""
    lines = []
    for ws in traces:
        ops = ["G", "R 0 100000"]
        for w in ws:
            ops += [w, "G", "R 0 100000"]
        lines.append("SPEC 0 0 0 0 1 0 | " + " ; ".join(ops))
    res = C.run_model(lines, ctx.wd, "specprefix") if lines else []
    out = []
    for r in res:
        f = p_seq.fields(r)[1:]
        sts = PrefixStates()
        i = 0
        # f = [state0, read0, (acc|rej|illegal, state, read)*]
        sts.append((f[0], f[1]))
        i = 2
        while i + 2 < len(f) + 1 and i + 2 <= len(f):
            if f[i] == "illegal" and sts.legal_upto is None:
                # not a Raft-legal history from this write on (a purge point that neither names an
                # entry nor lies beyond the log): the reference log does not speak after it
                sts.legal_upto = len(sts) - 1
            sts.append((f[i + 1], f[i + 2]))
            i += 3
        out.append(sts)
    return out


class PrefixStates(list):
    """(state, read) after each prefix of the accepted writes; legal_upto = number of writes
    before the first one that is not Raft-legal (None: the whole history is legal)"""
    legal_upto = None


def crash_images(rnd, files, synced, thorough):
    """post-crash directories allowed by the crash model for one snapshot"""
    ids = sorted(files)
    imgs = []
    full = [(i, files[i]) for i in ids]
    imgs.append(("process-crash", full))
    cut = [(i, files[i][: synced.get(i, 0)]) for i in ids]
    if cut != full:
        imgs.append(("power-loss-all-unsynced-lost", cut))
    n = 6 if thorough else 3
    for _ in range(n):
        im = []
        for i in ids:
            lo, hi = synced.get(i, 0), len(files[i])
            k = rnd.randint(lo, hi) if hi > lo else hi
            d = files[i][:k]
            if rnd.random() < 0.3:
                # size updated, data blocks lost: zeros from a RECORD BOUNDARY at or after the synced length
                import pydec
                try:
                    bounds = [0] + [o + l for (_, o, l) in pydec.decode_all(files[i])]
                except Exception:
                    bounds = []
                bs = [b for b in bounds if lo <= b < hi]
                if bs:
                    b0 = rnd.choice(bs)
                    d = files[i][:b0] + bytes(rnd.randint(1, hi - b0))
            im.append((i, d))
        if im not in [x[1] for x in imgs]:
            imgs.append(("power-loss-random-cut", im))
    return imgs


def crash_cases(ctx, cases, views, cfgs):
    rnd = ctx.rnd
    out, meta = [], []
    for ci, (c, v) in enumerate(zip(cases, views)):
        if v is None:
            continue
        for (ei, files, synced, acked, issued) in v.snaps:
            for kind, im in crash_images(rnd, files, synced, ctx.thorough()):
                cfg = cfgs[ci]
                case = p_recover.img_case(cfg, im, IMG_AFTER)
                if kind == "process-crash" and ei in v.snap_lock:
                    # the process died: the lock file is there as its owner left it
                    h_, f_, a_ = case.split("|", 2)
                    case = "%s|%s LOCK:%s |%s" % (h_, f_.rstrip(), v.snap_lock[ei], a_)
                out.append(case)
                meta.append(dict(trace=ci, at_event=ei, kind=kind, acked=acked, issued=issued,
                                 # an older file whose image is not its complete content: cut, or zero-filled
                                 gap=any(im[j][0] + len(im[j][1]) != im[j + 1][0] or im[j][1] != files[im[j][0]][: len(im[j][1])]
                                         for j in range(len(im) - 1))))
                ctx.count("image_" + kind)
    return out, meta


def run_crash(ctx, prop):
    """shared body of C03 and C05"""
    proof = core.proof_stage(prop)
    core.builds()
    rnd = ctx.rnd
    n = ctx.scale(60, 500)
    cases, cfgs = [], []
    for i in range(n):
        cfg = gen.rand_cfg(rnd, big_cache=True, trunc=1)
        line, st = gen_schedule(rnd, rnd.randint(4, ctx.scale(25, 50)), cfg, faults=0, snaps=True, autosnap=(i % 2 == 0))
        cases.append(line)
        cfgs.append(cfg)
    # a large entry (its torn part alone exceeds 64 KiB) written but not yet synced when the crash comes
    for j in range(ctx.scale(2, 8)):
        size = rnd.choice([90000, 150000, 260000])
        cases.append("TRACE 100000 1073741824 %d 1073741824 1 %d | A 1 0 x00 ; A 1 1 x01 ; F 1 ; wi ; A 1 2 %s ; F 1 ; w 1 ; snap ; w 1 ; snap ; wi ; snap"
                     % (rnd.choice([4, 100000]), rnd.choice(gen.CFG_RBUF), gen.hx(bytes((i * 17 + j) & 0xFF for i in range(size)))))
        ctx.count("large_entry_traces")
    # crashes of the SECOND incarnation: a flushed history, drop, reopen (possibly under other
    # limits), more history with snapshots (also inside calls)
    for j in range(ctx.scale(12, 100)):
        cfg = gen.rand_cfg(rnd, big_cache=True, trunc=1)
        cases.append(second_incarnation_case(rnd, cfg, rnd.randint(2, 12), rnd.randint(3, 14), snaps=True, autosnap=(j % 2 == 0)))
        ctx.count("second_incarnation_crash_traces")
    cases = p_seq.corpus(prop) + cases
    cfgs = [c.split("|")[0].replace("TRACE", "").strip() for c in cases]
    logs, rep = trace_check(ctx, prop.lower(), cases)
    views, _ = analyse(ctx, prop, cases, logs, [True] * len(cases))
    if prop == "C05":
        nco = 0
        for c, l in zip(cases, logs):
            for e in l.split(" ; "):
                e = e.strip()
                if e.startswith("c copyopen"):
                    nco += 1
                    # a gap (InvalidData) is finding F3; anything else must open
                    if e not in ("c copyopen ok", "c copyopen err InvalidData"):
                        ctx.fail("oracle", "C05 oracle: the directory of a store that is killed (copied as it is, lock file included, and opened while the pid of the old owner is in use) does not open: " + e,
                                 dict(kind="trace", case=c[:4000], trace=l[:3000]))
        ctx.count("copyopen", nco)
    # process-crash snapshots must equal the model's directory (checked by the replay: `c snap`)
    imgs, meta = crash_cases(ctx, cases, views, cfgs)
    impl = C.run_impl(imgs, ctx.wd, "crashimg")
    model = C.run_model(imgs, ctx.wd, "crashimg")
    core.compare(ctx, "recover-crash-images", imgs, impl, model)
    wlists = [writes_of_case(c, l) for c, l in zip(cases, logs)]
    plain = [[w for w in ws if not isinstance(w, tuple)] for ws in wlists]
    has_partial = [any(isinstance(w, tuple) for w in ws) for ws in wlists]
    prefixes = spec_prefix_states(ctx, plain)
    bad = 0
    nopen = 0
    for c, m, a in zip(imgs, meta, impl):
        f = p_seq.fields(a)
        why, cls = None, None
        if "panic" in f:
            why = "recovery (or an operation after it) panicked"
        elif f[0].startswith("openerr"):
            if prop == "C05":
                why = "the directory does not open after the crash: " + f[0]
                if m["gap"] and "InvalidData" in f[0]:
                    cls = "F3-gap-after-rotation"
        elif f[0] == "opened":
            nopen += 1
            if prop == "C05":
                if not (f[-2].startswith("stat") and f[-1].startswith("read")) or any(x.startswith("err") for x in f[3:9]):
                    why = "the recovered store does not stay usable (writes, flush, second restart): " + " ; ".join(f[3:])[:300]
                elif f[5] != f[2] and " T " not in cases[m["trace"]]:
                    # (histories with a truncation are left out: finding F2 of C07)
                    why = "the recovered store does not stay usable: after draining the evictable cache the recovered entries read differently: before `%s` after `%s`" % (f[2][:300], f[5][:300])
            else:
                if has_partial[m["trace"]]:
                    continue
                sts = prefixes[m["trace"]]
                got = (p_seq.state_of_stat(f[1]), f[2])
                ks = [k for k, st in enumerate(sts) if st == got]
                if not ks and sts.legal_upto is not None and m["issued"] > sts.legal_upto:
                    ctx.count("oracle_skipped_after_illegal_purge")
                    continue
                if not ks:
                    why = "the recovered state and entries are not those of any prefix of the writes issued before the crash"
                elif max(ks) < m["acked"]:
                    why = "recovery forgot acknowledged writes: recovered the prefix of length %d, %d writes were acknowledged" % (max(ks), m["acked"])
                elif min(ks) > m["issued"]:
                    why = "recovered more writes than were issued"
                elif f[5] != f[2] and " T " not in cases[m["trace"]]:
                    why = "the recovered entries do not stay what they are: after draining the evictable cache they read `%s`, before `%s`" % (f[5][:300], f[2][:300])
        if why:
            bad += 1
            rp = dict(kind="image", case=c[:8000], from_trace=cases[m["trace"]][:3000], mutation={k: v for k, v in m.items()}, observed=a[:800])
            if cls:
                rp["class"] = cls
            ctx.fail("oracle", "%s oracle: %s" % (prop, why), rp)
    # a chunk rotation that FAILS on the caller thread (the next chunk file cannot be created) with
    # journalled bytes pending, then a flush that is acknowledged, then the crash before any later
    # write: everything was acknowledged, so every crash image must show exactly the state and
    # entries the live store reported after the acknowledgement (judged on the implementation; the
    # model has no caller-side I/O failure). The recovery of these images is compared with the model.
    fcases = []
    for j in range(ctx.scale(10, 60)):
        recs = rnd.choice([3, 4, 5, 6])
        fcfg = "100000 1073741824 %d 1073741824 1 64" % recs
        pre = rnd.randint(0, 2)
        items = ["A 1 0 x00", "F 1", "wi"] if pre == 0 else ["A 1 0 x00"] if pre == 1 else ["V 1 1", "A 1 0 x00", "F 0"]
        nrec = 1 + (2 if pre == 2 else 1)            # head snapshot + records so far
        i = 1
        while nrec < recs - 1:
            items.append("A 1 %d x%02x" % (i, i)); i += 1; nrec += 1
        items += ["cfault create 1", rnd.choice(["A 1 %d x77" % i, "V 7 7", "C 1 0"])]      # fills the chunk: the rotation fails
        items += [rnd.choice(["F 1 ; wi", "F 1 ; w 1 ; wi", "F 0 ; wi ; F 1 ; wi"]), "G", "R 0 100000", "snap"]
        fcases.append("TRACE %s | %s" % (fcfg, " ; ".join(items)))
    flogs = run_traces(fcases, ctx.wd, prop.lower() + "f")
    fviews, _ = analyse(ctx, prop, fcases, flogs, [True] * len(fcases))
    fcfgs = [c.split("|")[0].replace("TRACE", "").strip() for c in fcases]
    fimgs, fmeta = crash_cases(ctx, fcases, fviews, fcfgs)
    fimpl = C.run_impl(fimgs, ctx.wd, "crashimgf")
    fmodel = C.run_model(fimgs, ctx.wd, "crashimgf")
    core.compare(ctx, "recover-crash-images-after-failed-rotation", fimgs, fimpl, fmodel)
    ctx.count("failed_rotation_crash_images", len(fimgs))
    for c, m, a in zip(fimgs, fmeta, fimpl):
        ev = [e.strip() for e in flogs[m["trace"]].split(" ; ")]
        live_stat = [e for e in ev[: m["at_event"]] if e.startswith("c ret stat")]
        live_read = [e for e in ev[: m["at_event"]] if e.startswith("c ret read")]
        acks = [e for e in ev[: m["at_event"]] if e.startswith("w cb ")]
        if not live_stat or not live_read or not acks or not acks[-1].endswith(" ok"):
            continue
        f = p_seq.fields(a)
        why = None
        if "panic" in f:
            why = "recovery (or an operation after it) panicked"
        elif f[0].startswith("openerr"):
            if prop == "C05":
                why = "the directory does not open after a crash that followed a failed chunk rotation and an acknowledged flush: " + f[0]
        elif f[0] == "opened":
            want = (p_seq.state_of_stat(live_stat[-1]), live_read[-1][len("c ret "):])
            got = (p_seq.state_of_stat(f[1]), f[2])
            if prop == "C03" and got != want:
                why = "everything was acknowledged before the crash (a flush after a failed chunk rotation reported success), but recovery shows `%s / %s` instead of `%s / %s`" % (got[0], got[1][:200], want[0], want[1][:200])
            elif prop == "C05" and (not (f[-2].startswith("stat") and f[-1].startswith("read")) or any(x.startswith("err") for x in f[3:9])):
                why = "the recovered store does not stay usable (writes, flush, second restart): " + " ; ".join(f[3:])[:300]
        if why:
            bad += 1
            ctx.fail("oracle", "%s oracle: %s" % (prop, why),
                     dict(kind="image", case=c[:8000], from_trace=fcases[m["trace"]][:3000], mutation={k: v for k, v in m.items()}, observed=a[:800]))
    imgs = imgs + fimgs
    # collapse known-class failures
    keep, seen = [], set()
    for fl in ctx.failures:
        cl = fl["replay"].get("class")
        if cl:
            ctx.count("known_" + cl)
            if cl in seen:
                continue
            seen.add(cl)
        keep.append(fl)
    ctx.failures = keep
    ctx.count("images_that_open", nopen)
    ctx.k_checks["oracle-" + ("prefix-containing-acked" if prop == "C03" else "opens-and-stays-usable")] = (
        not any(f["kind"] == "oracle" and "class" not in f["replay"] for f in ctx.failures), len(imgs))
    ctx.cov["evaluations"] = len(cases) + len(imgs)
    ctx.cov["distinct_nontrivial"] = len(set(imgs))
    ctx.cov["rule"] = "gated fault-free schedules with directory snapshots while the worker is held at a system call; for every snapshot: the process-crash image, the image with all unsynced bytes lost, and random per-file cuts between synced and written length (a quarter with a zero-filled tail); each image is opened by the real crate and by the model, then written to, flushed and reopened; every image is non-trivial"
    ctx.cov["samples"] = [cases[0][:1000], imgs[0][:800] if imgs else ""]
    return core.finish(ctx, proof)


def run_C03(ctx):
    return run_crash(ctx, "C03")


def run_C05(ctx):
    return run_crash(ctx, "C05")


def run_C08(ctx):
    proof = core.proof_stage("C08")
    core.builds()
    rnd = ctx.rnd
    n = ctx.scale(100, 900)
    cases = []
    for i in range(n):
        recs = rnd.choice([1, 2, 2, 3, 4])
        cfg = "%d %d %d %d 1 %d" % (rnd.choice([0, 2, 100000]), rnd.choice([10, 1 << 30]), recs, rnd.choice([150, 1 << 30]), rnd.choice(gen.CFG_RBUF))
        faults = 0 if i % 3 else rnd.choice([1, 2, 3])
        line, st = gen_schedule(rnd, rnd.randint(8, ctx.scale(35, 70)), cfg, faults=faults, snaps=True, reads=True)
        ctx.count("purges", st["purges"])
        cases.append(line)
    # a removal postponed by a failed sync meets a second removal that arrives in the very
    # batch whose sync succeeds again: the order of the unlinks (oldest first)
    for j in range(ctx.scale(16, 120)):
        R = rnd.choice([3, 4, 4, 5, 6])
        cfg = "100000 1073741824 %d 1073741824 1 64" % R
        k = rnd.choice([2, 2, 3])                     # closed chunks before the purges
        n1 = k * (R - 1)
        items = ["A 1 %d x%02x" % (i, i) for i in range(n1)] + ["F 1", "wi"]
        a = rnd.randint(1, k - 1) * (R - 1) - 1       # last entry of one of the closed chunks, not the last one
        items += ["P 1 %d" % a, "fault sync %d" % rnd.choice([0, 0, 0, 1]), "F 1", "wi"]
        items += ["P 1 %d" % (n1 - 1), "F 1", "snap"]
        items += [rnd.choice(["w 1", "w 2", "w 3"]), "snap"] * rnd.randint(1, 5) + ["wi", "snap", "G"]
        cases.append("TRACE %s | %s" % (cfg, " ; ".join(items)))
        ctx.count("postponed_removal_schedules")
    # two purges, each making another closed chunk obsolete, each flushed with a failing sync (the
    # removals pile up in the worker), then a flush that succeeds: all of them, oldest first
    for j in range(ctx.scale(10, 60)):
        R = rnd.choice([3, 4, 5])
        cfg = "100000 1073741824 %d 1073741824 1 64" % R
        k = rnd.choice([3, 4])
        n1 = k * (R - 1)
        items = ["A 1 %d x%02x" % (i, i) for i in range(n1)] + ["F 1", "wi"]
        c1 = rnd.randint(1, k - 2)
        c2 = rnd.randint(c1 + 1, k - 1)
        for c in (c1, c2):
            items += ["P 1 %d" % (c * (R - 1) - 1), "fault sync %d" % rnd.choice([0, 0, 1]), "F 1", rnd.choice(["wi", "wi", "w 2"])]
        items += ["wi", "F 1", "wi", "snap", "G"] + (["F 1", "wi", "snap", "G"] if rnd.random() < 0.5 else [])
        cases.append("TRACE %s | %s" % (cfg, " ; ".join(items)))
        ctx.count("two_postponed_removals_schedules")
    # a chunk closed since the last successful flush, a purge, and a flush during which the
    # sync of that just-closed chunk fails: the removal must wait (the purge record is not durable)
    for j in range(ctx.scale(12, 80)):
        R = rnd.choice([3, 4, 5])
        cfg = "100000 1073741824 %d 1073741824 1 64" % R
        k = rnd.choice([2, 3])
        n1 = k * (R - 1)
        items = ["A 1 %d x%02x" % (i, i) for i in range(n1)] + ["F 1", "wi"]
        n2 = n1 + (R - 1)                                  # one more chunk gets closed, unflushed
        items += ["A 1 %d x%02x" % (i, i) for i in range(n1, n2)]
        items += ["P 1 %d" % rnd.randint(R - 2, n1 - 1), "fault sync %d" % rnd.choice([0, 0, 1]), "F 1", "snap"]
        items += [rnd.choice(["w 1", "w 2", "w 3"]), "snap"] * rnd.randint(1, 4) + ["wi", "snap", "F 1", "wi", "snap", "G"]
        cases.append("TRACE %s | %s" % (cfg, " ; ".join(items)))
        ctx.count("failed_sync_of_closed_chunk_schedules")
    # the request channel (1024 slots) exactly full when a purge is flushed: the removal request
    # must still reach the worker
    for n in ([1023] if not ctx.thorough() else [1022, 1023, 1024]):
        R = 5                                              # A0..A3 fill the first chunk; the purge record does not fill the second
        cfg = "100000 1073741824 %d 1073741824 1 64" % R
        items = ["A 1 %d x%02x" % (i, i) for i in range(4)] + ["F 1", "wi", "A 1 4 x04", "F 1", "w 1"]
        items += ["burst %d 0 P 1 3" % n, "wi", "G", "snap"]
        cases.append("TRACE %s | %s" % (cfg, " ; ".join(items)))
        ctx.count("channel_full_at_purge_flush")
    # the purge record itself fills the open chunk (the rotation hands the bytes to the worker, a
    # following flush has nothing pending), flushed with and without a callback
    for j in range(ctx.scale(12, 80)):
        R = rnd.choice([3, 4, 5])
        cfg = "100000 1073741824 %d 1073741824 1 64" % R
        k = rnd.choice([1, 2, 3])
        n1 = k * (R - 1)
        items = ["A 1 %d x%02x" % (i, i) for i in range(n1)] + ["F 1", "wi"]
        items += ["V %d 1" % (2 + i) for i in range(R - 2)]          # the open chunk: head + R-2 votes
        items += ["P 1 %d" % rnd.randint(max(0, n1 - R), n1 - 1), rnd.choice(["F 0", "F 0", "F 1"]), "wi", "G", "snap"]
        items += ["A 1 %d x55" % n1, "F 1", "wi", "G"]
        cases.append("TRACE %s | %s" % (cfg, " ; ".join(items)))
        ctx.count("purge_fills_chunk_schedules")
    cases = p_seq.corpus("C08") + cases
    cfgs = [c.split("|")[0].replace("TRACE", "").strip() for c in cases]
    logs, rep = trace_check(ctx, "c08", cases)
    views, bad = analyse(ctx, "C08", cases, logs, None)
    nunlink = sum(len(v.unlinks) for v in views if v)
    ctx.count("unlinks_observed", nunlink)
    # purge durable before unlink: every snapshot taken after an unlink, cut to the synced
    # prefixes, must recover a state that is a prefix of the history containing the purge
    # (checked as in C03), and every live entry must be readable there
    sel_cases, sel_views, sel_cfgs, idx = [], [], [], []
    for i, (c, v) in enumerate(zip(cases, views)):
        if v is not None and v.unlinks and "fault" not in c:
            sel_cases.append(c); sel_views.append(v); sel_cfgs.append(cfgs[i]); idx.append(i)
    imgs, meta = [], []
    for ci, (c, v) in enumerate(zip(sel_cases, sel_views)):
        first_unlink = min(i for i, _ in v.unlinks)
        for (ei, files, synced, acked, issued) in v.snaps:
            if ei < first_unlink:
                continue
            ids = sorted(files)
            im = [(i, files[i][: synced.get(i, 0)]) for i in ids]
            # opened under a large cache: the question is what the files hold, not whether a
            # read survives cache pressure (C07, finding F2, is about that)
            big = " ".join(["100000", str(1 << 30)] + sel_cfgs[ci].split()[2:])
            imgs.append(p_recover.img_case(big, im, IMG_AFTER))
            meta.append(dict(trace=ci, at_event=ei, acked=acked, issued=issued))
    if imgs:
        impl = C.run_impl(imgs, ctx.wd, "c08img")
        model = C.run_model(imgs, ctx.wd, "c08img")
        core.compare(ctx, "recover-after-unlink", imgs, impl, model)
        wl = [writes_of_case(c, logs[idx[k]]) for k, c in enumerate(sel_cases)]
        plain = [[w for w in ws if not isinstance(w, tuple)] for ws in wl]
        prefixes = spec_prefix_states(ctx, plain)
        for c, m, a in zip(imgs, meta, impl):
            f = p_seq.fields(a)
            if any(isinstance(w, tuple) for w in wl[m["trace"]]):
                continue
            why = None
            if f[0] != "opened":
                if "InvalidData" in f[0]:
                    continue          # gap after rotation: C05's known finding, not about deletion
                why = "after chunk files were deleted, the directory cut to its synced bytes does not open: " + f[0]
            else:
                got = (p_seq.state_of_stat(f[1]), f[2])
                ks = [k for k, st in enumerate(prefixes[m["trace"]]) if st == got]
                if not ks and prefixes[m["trace"]].legal_upto is not None and m["issued"] > prefixes[m["trace"]].legal_upto:
                    ctx.count("oracle_skipped_after_illegal_purge")
                    continue
                if not ks:
                    why = "a chunk file was deleted before the purge that made it obsolete was durable: the synced bytes recover a state that is no prefix of the history"
                elif any(x.startswith("err") for x in f[2].split()[1:]):
                    why = "a live entry is unreadable after deletion"
            if why:
                bad += 1
                if bad <= 3:
                    ctx.fail("oracle", "C08 oracle: " + why, dict(kind="image", case=c[:6000], from_trace=sel_cases[m["trace"]][:100000], observed=a[:600]))
    # liveness: fault-free traces end with flush + idle: the files that remain are exactly the chunks of the final stat
    for c, l, v in zip(cases, logs, views):
        if v is None or "fault" in c:
            continue
        ev = [e.strip() for e in l.split(" ; ")]
        end = [e for e in ev if e.startswith("c end disk")]
        stats = [e for e in ev if e.startswith("c ret stat")]
        if end and stats and ev.index(stats[-1]) > max([i for i, e in enumerate(ev) if e.startswith("c call") and e.split()[2] in "VATPCU"] + [0]):
            pass
    ctx.k_checks["oracle-oldest-first-durable-purge"] = (bad == 0, nunlink)
    ctx.cov["evaluations"] = len(cases) + len(imgs)
    ctx.cov["distinct_nontrivial"] = len(set(c for c, v in zip(cases, views) if v and v.unlinks))
    ctx.cov["rule"] = "gated schedules with small chunks and many purges, RemoveChunks drained in the same batch or received later, 1-3 injected failures in a third; unlink order checked against the files present; snapshots after unlinks cut to the synced bytes must recover a prefix of the history; non-trivial = at least one chunk file was unlinked"
    ctx.cov["samples"] = [cases[0][:1000]]
    return core.finish(ctx, proof)


def run_C14(ctx):
    proof = core.proof_stage("C14")
    core.builds()
    rnd = ctx.rnd
    n = ctx.scale(60, 500)
    cases = []
    for i in range(n):
        recs = rnd.choice([1, 2, 3])
        cfg = "100000 1073741824 %d %d 1 64" % (recs, rnd.choice([150, 1 << 30]))
        ops, st, sim = gen.gen_history(rnd, rnd.randint(6, 30), p_reject=0.0, reads=False, max_batch=3, flush_every=0.3)
        items = []
        for o in ops:
            items.append(o)
            if rnd.random() < 0.3:
                items.append(rnd.choice(["w 1", "w 2", "wi"]))
        # last flush, acknowledged while the removal may still be pending, then drop and reopen
        hold = rnd.choice([1, 2, 3, 4, 6, 50])
        kind = rnd.choice(["dropheld", "drop", "panicheld"])
        if i < ctx.scale(2, 6):
            # a long hold: a drop that gives up waiting for the worker after a deadline shows only here
            kind = "dropheld %d" % ctx.scale(3500, 12000)
            hold = rnd.choice([1, 2, 3])
        elif kind == "dropheld" and rnd.random() < 0.5:
            # dropped the way another store's flush callback would drop it: on a thread that
            # carries the FlushWorker's thread name
            kind = "dropheld 150 cb"
            ctx.count("drop_on_worker_named_thread")
        if rnd.random() < 0.3:
            items.append("DSK")            # a snapshot that outlives the store must not keep the directory locked
        items += ["F 1", "w %d" % hold, kind, "release", "open " + cfg, "G", "R 0 100000"]
        last = sim.last()
        if last is not None:
            items += ["P %d %d" % last, "F 1", "wi", "V 4000000000 1", "F 1", "wi", "G"]
        cases.append("TRACE %s | %s" % (cfg, " ; ".join(items)))
    # a purge (and later writes) NOT flushed before the drop: what was acknowledged earlier must
    # still be there after the reopen (the unflushed purge record may be lost, the files of the
    # entries it would have released may not)
    for j in range(ctx.scale(8, 60)):
        R = rnd.choice([3, 4, 5])
        cfg = "100000 1073741824 %d 1073741824 1 64" % R
        n1 = rnd.randint(2, 3) * (R - 1)
        items = ["A 1 %d x%02x" % (i, i) for i in range(n1)] + ["F 1", "wi", "R 0 100000"]
        items += ["P 1 %d" % rnd.randint(R - 2, n1 - 1)]
        if rnd.random() < 0.5:
            items += ["V 2 1"]
        items += [rnd.choice(["drop", "dropheld", "panicheld"]), "release", "open " + cfg, "G", "R 0 100000", "A 1 %d x70" % n1, "F 1", "wi", "G"]
        cases.append("TRACE %s | %s" % (cfg, " ; ".join(items)))
        ctx.count("unflushed_purge_then_drop")
    # the request channel full at the time of the drop: nothing that was accepted may be lost
    for j in range(ctx.scale(1, 3)):
        recs = rnd.choice([200, 400])
        cfg = "100000 1073741824 %d 1073741824 1 64" % recs
        n = 1024 + rnd.randint(10, 30)
        cases.append("TRACE %s | A 1 0 x61 ; F 1 ; w 1 ; burst %d %d ; %s ; release ; open %s ; G ; R 0 100000 ; A 1 %d x62 ; F 1 ; wi ; G"
                     % (cfg, n, n, rnd.choice(["dropheld", "panicheld"]), cfg, n + 1))
        ctx.count("channel_full_then_drop")
    cases = p_seq.corpus("C14") + cases
    logs, rep = trace_check(ctx, "c14", cases)
    views, bad = analyse(ctx, "C14", cases, logs, None)
    for c, l in zip(cases, logs):
        ev = [e.strip() for e in l.split(" ; ")]
        why = None
        if "c dropheld returned" in ev:
            # drop returned although the worker was held: it did not wait for it
            d = ev.index("c dropheld returned")
            nxt = [i for i, e in enumerate(ev) if i > d and e.startswith("c open ")]
            upto = nxt[0] if nxt else len(ev)
            late = [e for e in ev[d:upto] if e.startswith("w ")]
            if late:
                why = "drop returned while the worker still had work; it acted afterwards: " + late[0]
        # an unflushed purge before the drop: after the reopen the acknowledged entries are all
        # there, or exactly those above the purge point if the purge record made it to disk
        reads = [(i, e) for i, e in enumerate(ev) if e.startswith("c ret read ")]
        pcall = [i for i, e in enumerate(ev) if e.startswith("c call P ")]
        drops = [i for i, e in enumerate(ev) if e == "c drop"]
        if pcall and drops and reads and pcall[-1] < drops[0] and not any(e.startswith("c call F") for e in ev[pcall[-1]:drops[0]]):
            before = [r for i, r in reads if i < pcall[-1]]
            after = [r for i, r in reads if i > drops[0]]
            if before and after:
                up = int(ev[pcall[-1]].split()[4])
                items_b = before[-1].split()[3:]
                items_a = after[0].split()[3:]
                kept = [x for x in items_b if int(x.split(":")[2]) > up]
                if items_a != items_b and items_a != kept:
                    why = why or "entries acknowledged before an unflushed purge are gone after drop and reopen: before `%s` after `%s`" % (" ".join(items_b)[:300], " ".join(items_a)[:300])
        opened = [i for i, e in enumerate(ev) if e == "c opened"]
        if len(opened) >= 2:
            tail = ev[opened[1]:]
            if any(e.startswith("c ret err") for e in tail):
                why = why or "the reopened store failed an operation: " + [e for e in tail if e.startswith("c ret err")][0]
            calls = [e for e in tail if e.startswith("c call F 1")]
            acks = [e for e in tail if e.startswith("w cb ") and e.endswith(" ok")]
            if len(acks) < len(calls):
                why = why or "a flush of the reopened store was never acknowledged (%d of %d)" % (len(acks), len(calls))
        elif "c openerr" in l or "c panic" in l:
            why = "the directory did not open after drop"
        if why:
            bad += 1
            if bad <= 3:
                ctx.fail("oracle", "C14 oracle: " + why, dict(kind="trace", case=c[:4000], trace=l[:5000]))
    ctx.k_checks["oracle-drop-quiesces"] = (bad == 0, len(cases))
    ctx.cov["evaluations"] = len(cases)
    ctx.cov["distinct_nontrivial"] = len(set(c for c, l in zip(cases, logs) if " w unlink " in l or "dropheld blocked" in l))
    ctx.cov["rule"] = "histories ending in flush, acknowledgement with the worker held at each of its remaining system calls (pending unlink, queued writes), drop (held or free), reopen, purge + flush on the new instance; non-trivial = the drop found the worker with work left or a chunk was unlinked"
    ctx.cov["samples"] = [cases[0][:1000], logs[0][:1200]]
    return core.finish(ctx, proof)


def f2_class(case_ops, fields_, events=None):
    """finding F2: does the history append a log id that is not above the closing last id
    of an earlier chunk rotation (an eviction boundary in force or still to be installed)?
    Rotations are seen in stat outputs (closed chunk states, cache boundary) and, in
    traces, as `c create` events inside a call; the last id at a rotation is bounded from
    above by the greatest id appended or purged so far (an over-approximation that can
    only enlarge the class by histories re-appending below an earlier id)."""
    import re
    mx = None          # greatest known boundary
    hi = None          # greatest id appended / purged so far
    seq = list(zip(case_ops, fields_)) if events is None else events
    for o, r in seq:
        if o == "create":
            if hi is not None:
                mx = hi if mx is None or hi > mx else mx
            continue
        if r.startswith("stat ") or r.startswith("ret stat "):
            body = r[r.index("closed=["):]
            for m in re.finditer(r"\{(\S+) (\S+) (\S+) (\S+) (\S+)\}", body.split(" open=")[0]):
                last = m.group(2)
                if last != "-":
                    t = tuple(int(x) for x in last.split(":"))
                    mx = t if mx is None or t > mx else mx
            cm = re.search(r"cache=(\S+?),", r)
            if cm and cm.group(1) != "-":
                t = tuple(int(x) for x in cm.group(1).split(":"))
                mx = t if mx is None or t > mx else mx
        ok = r.startswith("ok ") or r.startswith("ret ok")
        if o.startswith("A ") and ok:
            t = o.split()[1:]
            for k in range(0, len(t), 3):
                idk = (int(t[k]), int(t[k + 1]))
                if mx is not None and idk <= mx:
                    return True
                hi = idk if hi is None or idk > hi else hi
        elif o.startswith("P ") and ok:
            t = o.split()
            idk = (int(t[1]), int(t[2]))
            hi = idk if hi is None or idk > hi else hi
    return False


def run_C07(ctx):
    proof = core.proof_stage("C07")
    core.builds()
    rnd = ctx.rnd
    # (1) lock-step histories under tiny caches, reads and snapshot iteration everywhere, drains, restarts
    n = ctx.scale(300, 3000)
    base = p_seq.gen_cases(ctx, n, 5, ctx.scale(50, 200), big_cache=False, small_cache=True, p_reject=0.05, restarts=2,
                           finals=["F 1", "I", "E", "G", "R 0 100000", "D"])
    cases = []
    for c in p_seq.corpus("C07") + base:
        head, ops = c.split("|", 1)
        out = []
        have_snap = False
        for o in [x.strip() for x in ops.split(";") if x.strip()]:
            out.append(o)
            if o.startswith("X "):
                have_snap = False
            if o == "I":
                out.append("G")
                if rnd.random() < 0.3:
                    out.append("E")
                if rnd.random() < 0.5:
                    out += ["R 0 100000"] if rnd.random() < 0.5 else ["D"]
                # a snapshot taken now and iterated later (after more writes, rotations, evictions)
                if not have_snap and rnd.random() < 0.12:
                    out += ["DS", "D"]
                    have_snap = True
                elif have_snap and rnd.random() < 0.25:
                    out.append("DI")
        if have_snap:
            out.append("DI")
        # last: three reader threads against a thread that keeps draining the cache
        out.append("RR %d" % rnd.choice([20, 60]))
        cases.append(head + "| " + " ; ".join(out))
    # entries of 130-300 KB in closed, flushed chunks under a tiny cache: read from disk by three
    # threads at once while a fourth keeps draining the cache
    for j in range(ctx.scale(3, 12)):
        cfg = "%d %d %d 1073741824 1 %d" % (rnd.choice([0, 1]), rnd.choice([0, 10]), rnd.choice([2, 3]), rnd.choice([0, 7, 64, 67108864]))
        ops = []
        for i in range(rnd.randint(3, 5)):
            size = rnd.choice([135000, 200000, 300000]) if i % 2 == 0 else rnd.choice([0, 5, 900])
            ops.append("A 1 %d %s" % (i, gen.hx(bytes((k * 11 + i + j) & 0xFF for k in range(size)))))
        cases.append("SEQ %s | %s" % (cfg, " ; ".join(gen.sync_ops(ops) + ["F 1", "I", "E", "G", "R 0 100000", "RR %d" % rnd.choice([30, 80])])))
        ctx.count("large_entry_reader_stress")
    impl, model = p_seq.seq_run(ctx, cases)
    spec = p_seq.spec_lines(cases, ctx.wd)
    bad = 0
    for c, a in zip(cases, impl):
        fa = p_seq.fields(a)
        st = [x for x in fa if x.startswith("stress ")]
        if st and st[0] != "stress ok":
            bad += 1
            if bad <= 3:
                ctx.fail("oracle", "C07 oracle: concurrent readers saw other results while another thread drained the evictable cache (nothing was written): " + st[0][:600],
                         dict(kind="seq", case=c, detail=st[0][:2000]))
    # a snapshot iterated later returns what it returned when it was taken
    for c, a in zip(cases, impl):
        fa = p_seq.fields(a)
        ops = ["open"] + [o.strip() for o in c.split("|", 1)[1].split(";")]
        taken = None
        for k, o in enumerate(ops):
            if k >= len(fa):
                break
            if o == "DS" and k + 1 < len(fa) and ops[k + 1] == "D":
                taken = fa[k + 1]
            elif o.startswith("X "):
                taken = None
            elif o == "DI" and taken is not None and "err:" not in taken and fa[k] != taken:
                rp = dict(kind="seq", case=c, at_op=k, op="DI", detail=("snapshot iteration changed: taken %s / later %s" % (taken[:300], fa[k][:300])))
                if f2_class(ops, fa):
                    rp["class"] = "F2-reappended-id-not-above-eviction-boundary"
                bad += 1
                ctx.fail("oracle", "C07 oracle: a snapshot (dump_data) iterated later does not return the entries it held when it was taken", rp)
                break
    for c, a, s in zip(cases, impl, spec):
        r = p_seq.oracle_c01(ctx, c, a, s)
        if r is not None:
            ops = ["open"] + [o.strip() for o in c.split("|", 1)[1].split(";")]
            rp = dict(kind="seq", case=c, at_op=r[0], op=r[1], detail=r[2][:600])
            fa = p_seq.fields(a)
            if "read differs" in r[2] and r[0] < len(fa) and "err:" in fa[r[0]] and f2_class(ops, fa):
                rp["class"] = "F2-reappended-id-not-above-eviction-boundary"
            bad += 1
            ctx.fail("oracle", "C07 oracle: " + r[2][:300], rp)
    # (2) gated traces: reads while data is buffered / queued / written / synced / evicted
    m = ctx.scale(80, 700)
    tcases = []
    for i in range(m):
        cfg = gen.rand_cfg(rnd, small_cache=True, trunc=1)
        line, st = gen_schedule(rnd, rnd.randint(6, ctx.scale(30, 60)), cfg, faults=0, reads=True, small_cache=True)
        # a stat before every read so that rotations are visible to the classifier
        tcases.append(line.replace(" ; R ", " ; G ; R ").replace(" ; D ;", " ; G ; D ;"))
    # a chunk rotated while the worker is held (its tail only queued), flushes that nobody waits
    # for, more appends under a cache that is over its limit, then reads of the rotated chunks
    for j in range(ctx.scale(16, 100)):
        R = rnd.choice([3, 4, 5])
        cfg = "%d %d %d 1073741824 1 %d" % (rnd.choice([0, 0, 1]), rnd.choice([0, 8, 1 << 30]), R, rnd.choice(gen.CFG_RBUF))
        items, idx = [], 0
        for rot in range(rnd.randint(1, 3)):
            for _ in range(R - 1):
                items.append("A 1 %d %s" % (idx, gen.hx(gen.rand_payload(rnd, big=0.0)))); idx += 1
            items.append(rnd.choice(["F 1", "F 1", "F 0"]))
            if rnd.random() < 0.3:
                items.append(rnd.choice(["w 1", "w 2"]))
            for _ in range(rnd.randint(1, 2)):
                items.append("A 1 %d %s" % (idx, gen.hx(gen.rand_payload(rnd, big=0.0)))); idx += 1
            items += ["G", "R 0 100000", "G", "D"]
            for _ in range(R - 1 - (idx % (R - 1)) if idx % (R - 1) else 0):
                items.append("A 1 %d x" % idx); idx += 1
        items += ["wi", "G", "R 0 100000"]
        tcases.append("TRACE %s | %s" % (cfg, " ; ".join(items)))
        ctx.count("reads_of_rotated_unwritten_chunks")
    logs, rep = trace_check(ctx, "c07", tcases)
    tw = [writes_of_case(c, l) for c, l in zip(tcases, logs)]
    for c, l, ws in zip(tcases, logs, tw):
        if l in ("hang", "harness-panic") or any(isinstance(w, tuple) for w in ws):
            continue
        ev = [e.strip() for e in l.split(" ; ")]
        # calls with their results, and chunk creations inside calls, in order
        seqev, cur, rotated = [], None, False
        for e in ev:
            if e.startswith("c call "):
                cur, rotated = e[7:], False
            elif e.startswith("c ret ") and cur is not None:
                seqev.append((cur, e[2:]))
                # a rotation inside the call comes after the record was applied: the closing last id
                # is at most the greatest id known once the call is over (for a single-entry append:
                # exactly that entry), and no entry of the same call lies below it
                if rotated:
                    seqev.append(("create", ""))
                cur = None
            elif e.startswith("c create ") and cur is not None:
                rotated = True
        calls = [(o, r[4:] if r.startswith("ret ") else r) for o, r in seqev if o != "create"]
        for k, (o, r) in enumerate(seqev):
            if (o.startswith("R ") or o == "D") and ("err:" in r or "panic" in r):
                rp = dict(kind="trace", case=c[:4000], op=o, observed=r[:400], trace=l[:5000])
                if f2_class(None, None, events=seqev[:k]):
                    rp["class"] = "F2-reappended-id-not-above-eviction-boundary"
                bad += 1
                ctx.fail("oracle", "C07 oracle: a read of a live entry failed while the worker was at some position: " + r[:200], rp)
                break
    # (3) a chunk rotation that fails on the caller thread (the next chunk file cannot be created)
    # and is retried by the next write; then flush, idle, reads. The same schedule under a big
    # cache and under a cache that keeps nothing evictable must read the same entries, without
    # error (judged on the implementation alone: the model has no caller-side I/O failure)
    fr_sched = []
    for j in range(ctx.scale(10, 60)):
        R = rnd.choice([3, 4, 5, 6])
        items, idx = [], 0
        for _ in range(R - 2):
            items.append("A 1 %d %s" % (idx, gen.hx(gen.rand_payload(rnd, big=0.0)))); idx += 1
        if rnd.random() < 0.5:
            items.insert(rnd.randint(0, len(items)), "F 1")
        items += ["cfault create 1", rnd.choice(["A 1 %d x77" % idx, "V 3 3"])]
        if items[-1].startswith("A"):
            idx += 1
        for _ in range(rnd.randint(1, R + 1)):
            items.append("A 1 %d %s" % (idx, gen.hx(gen.rand_payload(rnd, big=0.0)))); idx += 1
        # E: drain what is evictable (the worker has moved the boundary; eviction itself only runs at an insert)
        items += ["F 1", "wi", "E", "G", "R 0 100000", "D"]
        fr_sched.append((R, " ; ".join(items)))
    fr_cases = []
    for R, sch in fr_sched:
        fr_cases.append("TRACE 100000 1073741824 %d 1073741824 1 64 | %s" % (R, sch))
        fr_cases.append("TRACE %d %d %d 1073741824 1 %d | %s" % (rnd.choice([0, 1]), rnd.choice([0, 1, 1 << 30]), R, rnd.choice(gen.CFG_RBUF), sch))
    fr_logs = run_traces(fr_cases, ctx.wd, "c07fr")
    ctx.count("reads_after_failed_rotation", len(fr_cases))
    for q in range(0, len(fr_cases), 2):
        outs = []
        for l in fr_logs[q:q + 2]:
            ev = [e.strip() for e in l.split(" ; ")]
            outs.append([e for e in ev if e.startswith("c ret read") or e.startswith("c ret iter") or e.startswith("c ret dump")])
        big, tiny = outs
        if fr_logs[q] in ("hang", "harness-panic") or fr_logs[q + 1] in ("hang", "harness-panic"):
            continue
        if big != tiny or any("err:" in e or "panic" in e for e in tiny):
            bad += 1
            ctx.fail("oracle", "C07 oracle: after a failed and retried chunk rotation the entries read under a tiny cache differ from those read under a big cache (or a read fails): big `%s` tiny `%s`" % (" | ".join(big)[:400], " | ".join(tiny)[:400]),
                     dict(kind="trace", case=fr_cases[q + 1][:4000], trace=fr_logs[q + 1][:5000], big_cache_case=fr_cases[q][:4000]))
    keep, seen = [], set()
    for fl in ctx.failures:
        cl = fl["replay"].get("class")
        if cl:
            ctx.count("known_" + cl)
            if cl in seen:
                continue
            seen.add(cl)
        keep.append(fl)
    ctx.failures = keep
    ctx.k_checks["oracle-reads-total"] = (not any(f["kind"] == "oracle" and "class" not in f["replay"] for f in ctx.failures), len(cases) + len(tcases))
    ctx.cov["evaluations"] = len(cases) + len(tcases)
    ctx.cov["distinct_nontrivial"] = p_seq.nontrivial(cases, impl) + len(set(tcases))
    ctx.cov["rule"] = "lock-step histories under cache limits {0,1,2,3} x {0,1,10,1G} with range reads, snapshot iteration and drains at idle points and restarts, plus gated traces with reads while requests are buffered / queued / in flight / written / synced / evicted; every read item is compared with the reference log; non-trivial = contains rotation or refused operation (histories), every trace"
    ctx.cov["samples"] = [cases[0][:1000], tcases[0][:1000]]
    return core.finish(ctx, proof)
