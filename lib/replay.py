"""./check replay <path>: rerun one replay file on the implementation and on the model."""
import json, os, sys
import common as C, core, p_trace


def main(path):
    d = json.load(open(path))
    core.builds()
    wd = C.workdir("replay")
    case = d.get("case")
    if case is None and d.get("broken"):
        for b in d["broken"]:
            det = b.get("detail")
            if isinstance(det, dict) and det.get("case"):
                case = det["case"]
                break
    if not case:
        print("this replay names a broken proof obligation or correspondence check, not an input:")
        print(json.dumps(d.get("broken", d), indent=1)[:3000])
        return 0
    kind = case.split()[0]
    print("case:", case[:2000])
    if kind == "TRACE":
        logs = p_trace.run_traces([case], wd, "replay", procs=1)
        rep = p_trace.replay_on_model([case], logs, wd)
        print("implementation trace:", logs[0][:6000])
        print("model replay:", rep[0][:2000])
        v = p_trace.LogView(logs[0]) if logs[0] not in ("hang", "harness-panic") else None
        if v:
            for p, t, i in v.problems:
                print("oracle:", p, t, "at event", i)
        return 0
    if kind == "SSACK":
        import subprocess
        cf, of = os.path.join(wd, "ssack.cases"), os.path.join(wd, "ssack.out")
        open(cf, "w").write(case + "\n")
        subprocess.run([C.harness_bin(), "ssack", cf, of], env=C.ENV, timeout=600)
        k = case.split()[2]
        print("implementation:", open(of).read().strip())
        print("expected      : ssack got=%s ok=%s (every flush acknowledged exactly once)" % (k, k))
        return 0
    if kind == "lock":
        print("re-run:", d.get("cmd"))
        return 0
    prof = d.get("profile", "debug")
    if prof == "release":
        core.builds(("debug", "release"))
    impl = C.run_impl([case], wd, profile=prof)
    model = C.run_model([case], wd)
    print("implementation:", impl[0][:6000])
    print("model         :", model[0][:6000])
    if impl[0] != model[0]:
        df = C.first_diff(impl[0], model[0])
        print("first difference at field", df)
    if kind == "SEQ":
        spec = C.run_model(["SPEC" + case[3:]], wd, "spec")
        print("reference log :", spec[0][:6000])
    print("recorded      :", (d.get("what") or "")[:500])
    return 0
