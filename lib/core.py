"""Decision procedure shared by all property checks (DESIGN 2.6)."""
import json, os, random, sys, time
import common as C

# pinned theorems per property: (Coq module, .vo target, [theorem names])
THEOREMS = {}
CURRENT_TIER = "quick"


def register(prop, module, vo, names):
    THEOREMS[prop] = (module, vo, names)


class Ctx:
    def __init__(self, prop, tier, seed):
        self.prop, self.tier, self.seed = prop, tier, int(seed)
        global CURRENT_TIER
        CURRENT_TIER = tier
        self.rnd = random.Random("%s-%s" % (prop, seed))
        self.t0 = time.time()
        self.wd = C.workdir(prop)
        self.failures = []        # dicts: kind, what, replay, known
        self.cov = {"evaluations": 0, "distinct_nontrivial": 0, "samples": []}
        self.k_checks = {}        # name -> (passed bool, count)
        self.assumptions = []
        self.dist = {}
        self.nreplay = 0

    def thorough(self):
        return self.tier == "thorough"

    def scale(self, quick, thorough):
        return thorough if self.thorough() else quick

    def fail(self, kind, what, replay, known=None):
        """kind: 'oracle' (the property itself fails on the implementation, with input) or
        'corr' (model and implementation disagree)"""
        self.failures.append(dict(kind=kind, what=what, replay=replay, known=known))

    def count(self, key, n=1):
        self.dist[key] = self.dist.get(key, 0) + n


def classify_known(prop, failure, known):
    """A failure is known when a listed open finding's matcher accepts it."""
    for f in known.get("findings", []):
        if f.get("property") != prop or f.get("status") != "open":
            continue
        m = f.get("match", {})
        rp = failure["replay"]
        ok = True
        for k, v in m.items():
            if rp.get(k) != v:
                ok = False
        if ok and m:
            return f
    return None


def finish(ctx, proof, extra_obligations=None):
    """Prints the verdict lines, writes evidence, returns the exit code."""
    prop = ctx.prop
    known = C.load_known()
    lines, violations = [], 0
    seen_known = {}
    oracle_fail = [f for f in ctx.failures if f["kind"] == "oracle"]
    corr_fail = [f for f in ctx.failures if f["kind"] == "corr"]
    unknown_oracle = []
    for f in oracle_fail:
        kf = classify_known(prop, f, known)
        if kf is not None:
            seen_known.setdefault(kf["id"], (kf, f))
        else:
            unknown_oracle.append(f)
    for kid, (kf, f) in sorted(seen_known.items()):
        lines.append("KNOWN-FINDING: property=%s %s: %s" % (prop, kid, kf["what"]))
    for f in unknown_oracle[:5]:
        ctx.nreplay += 1
        rp = dict(f["replay"], property=prop, what=f["what"], kind_of_failure="property fails on the implementation")
        path = C.write_replay(prop, ctx.seed, ctx.nreplay, rp)
        lines.append("VIOLATION property=%s replay=%s" % (prop, path))
        violations += 1
    if not unknown_oracle:
        # correspondence or proof broken without a concrete failing input
        broken = []
        if not proof["ok"]:
            broken.append(dict(theorem_or_check="proof stage", detail=proof["problems"]))
        for f in corr_fail[:3]:
            broken.append(dict(theorem_or_check=f["what"], detail=f["replay"]))
        if broken:
            ctx.nreplay += 1
            rp = dict(property=prop, kind_of_failure="proof obligation or correspondence no longer checks; the search found no input on which the property fails",
                      broken=broken)
            path = C.write_replay(prop, ctx.seed, ctx.nreplay, rp)
            lines.append("VIOLATION property=%s replay=%s no-failing-input-found" % (prop, path))
            violations += 1
    kc_total = len(ctx.k_checks)
    kc_pass = sum(1 for v in ctx.k_checks.values() if v[0])
    cov = dict(ctx.cov)
    cov.update({
        "obligations": proof["obligations"] + kc_total,
        "discharged": proof["discharged"] + kc_pass,
        "theorems": proof["names"],
        "correspondence_checks": {k: {"passed": v[0], "cases": v[1]} for k, v in ctx.k_checks.items()},
        "checker_cmd": "make -C coq (coqc 8.16.1) + coqc .cache/audit/Audit_%s.v (Print Assumptions) + grep for Admitted/Axiom/... ; ./check %s %s" % (prop, prop, ctx.tier),
        "trusted_base": C.TRUSTED_BASE,
        "generator_distribution": ctx.dist,
        "known_findings_seen": sorted(seen_known.keys()),
        "proof_problems": proof["problems"],
    })
    cov["samples"] = cov["samples"][:6]
    C.write_evidence(prop, ctx.tier, ctx.seed, cov, time.time() - ctx.t0, violations, ctx.assumptions)
    for l in lines:
        print(l)
    if violations == 0:
        print("OK property=%s tier=%s obligations=%d discharged=%d evaluations=%d wall=%.1fs" % (
            prop, ctx.tier, cov["obligations"], cov["discharged"], cov["evaluations"], time.time() - ctx.t0))
    sys.stdout.flush()
    return 1 if violations else 0


def proof_stage(prop):
    module, vo, names = THEOREMS[prop]
    return C.proof_stage(prop, module, vo, names, coqchk=(CURRENT_TIER == "thorough"))


def builds(profiles=("debug",)):
    ok, out = C.build_modelrun()
    if not ok:
        raise RuntimeError("modelrun build failed:\n" + out[-2000:])
    for p in profiles:
        ok, out = C.build_harness(p)
        if not ok:
            raise RuntimeError("harness build (%s) failed:\n%s" % (p, out[-3000:]))


def compare(ctx, name, cases, impl, model, want_oracle=None):
    """Line-by-line comparison of implementation and model. Disagreements become
    'corr' failures (first few)."""
    bad = 0
    for i, (a, b) in enumerate(zip(impl, model)):
        if a != b:
            bad += 1
            if bad <= 3:
                d = C.first_diff(a, b)
                ctx.fail("corr", "K-check %s: implementation and model differ" % name,
                         dict(check=name, case=cases[i], first_difference_at_field=d[0] if d else None,
                              implementation=(d[1] if d else a)[:2000], model=(d[2] if d else b)[:2000]))
    ctx.k_checks[name] = (bad == 0, len(cases))
    return bad
